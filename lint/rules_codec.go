package main

// CODEC engine: small tables are extracted from the source (constants the
// type checker folded, literal tables, which field goes with which flag or
// offset) and compared with each other and with RFC 7540 / RFC 7541 tables
// embedded here. Nothing of the repository is executed.

import (
	"fmt"
	"go/ast"
	"go/constant"
	"go/token"
	"go/types"
	"sort"
	"strings"
)

var frameTypeNames = []string{"DATA", "HEADERS", "PRIORITY", "RST_STREAM", "SETTINGS", "PUSH_PROMISE", "PING", "GOAWAY", "WINDOW_UPDATE", "CONTINUATION"}

// struct implementing each frame type on the pinned tree; resolved through
// the Type() method's constant, not through this table (table is the oracle
// for which Go type carries which RFC frame).
var rfcFlags = map[int64][]int64{ // frame type -> flags RFC 7540 s6 defines for it
	0: {0x1, 0x8},            // DATA: END_STREAM, PADDED
	1: {0x1, 0x4, 0x8, 0x20}, // HEADERS: END_STREAM, END_HEADERS, PADDED, PRIORITY
	2: {},                    // PRIORITY
	3: {},                    // RST_STREAM
	4: {0x1},                 // SETTINGS: ACK
	5: {0x4, 0x8},            // PUSH_PROMISE: END_HEADERS, PADDED
	6: {0x1},                 // PING: ACK
	7: {},                    // GOAWAY
	8: {},                    // WINDOW_UPDATE
	9: {0x4},                 // CONTINUATION: END_HEADERS
}

// frameImpl describes one type implementing Frame.
type frameImpl struct {
	Name string // Go type name
	Kind int64  // constant returned by Type()
	Des  *ast.FuncDecl
	Ser  *ast.FuncDecl
}

// frameImpls finds every named struct whose pointer type implements the
// package's Frame interface and reads the constant its Type() returns.
func (p *Prog) frameImpls() []frameImpl {
	if v, ok := p.memo["frameImpls"]; ok {
		return v.([]frameImpl)
	}
	var out []frameImpl
	fobj, _ := p.Pkg.Scope().Lookup("Frame").(*types.TypeName)
	if fobj == nil {
		p.memo["frameImpls"] = out
		return out
	}
	iface, _ := fobj.Type().Underlying().(*types.Interface)
	sc := p.Pkg.Scope()
	for _, n := range sc.Names() {
		tn, ok := sc.Lookup(n).(*types.TypeName)
		if !ok || tn == fobj {
			continue
		}
		if _, ok := tn.Type().Underlying().(*types.Struct); !ok {
			continue
		}
		if iface == nil || !types.Implements(types.NewPointer(tn.Type()), iface) {
			continue
		}
		fi := frameImpl{Name: n, Kind: -1}
		if td := p.decl("(*" + n + ").Type"); td != nil && td.Body != nil {
			for _, s := range td.Body.List {
				if rs, ok := s.(*ast.ReturnStmt); ok && len(rs.Results) == 1 {
					if v, ok := p.intConst(rs.Results[0]); ok {
						fi.Kind = v
					}
				}
			}
		}
		fi.Des = p.decl("(*" + n + ").Deserialize")
		fi.Ser = p.decl("(*" + n + ").Serialize")
		out = append(out, fi)
	}
	sort.Slice(out, func(i, j int) bool { return out[i].Kind < out[j].Kind })
	p.memo["frameImpls"] = out
	return out
}

func init() {
	register(&Rule{
		Name: "frame-constants", Props: []string{"C05", "C16", "C18"}, Engine: "CODEC", Floor: 40,
		Doc: "frame type codes 0..9, flag bits, error codes 0x0..0xd, SETTINGS identifiers 1..6 and their initial values, the 9-byte header size, the 2^14 default and 2^24-1 maximum frame size and the connection preface equal RFC 7540 s3.5, s4.1, s6, s6.5.2, s7, s11",
		Run: ruleFrameConstants,
	})
	register(&Rule{
		Name: "frame-pool-types", Props: []string{"C05", "C16", "C17"}, Engine: "CODEC", Floor: 10,
		Doc: "each framePools[k] entry constructs the struct whose Type() constant is k, for all ten frame types: the reader hands Deserialize the body that matches the type byte",
		Run: ruleFramePools,
	})
	register(&Rule{
		Name: "header-layout", Props: []string{"C05", "C16"}, Engine: "CODEC", Floor: 8,
		Doc: "the 9-byte frame header is read and written at offsets [0:3] length, [3] type, [4] flags, [5:9] stream id, with the stream id masked to 31 bits on read (RFC 7540 s4.1)",
		Run: ruleHeaderLayout,
	})
	register(&Rule{
		Name: "endian-helpers", Props: []string{"C05", "C16"}, Engine: "CODEC", Floor: 5,
		Doc: "http2utils' 24/32-bit helpers are big-endian: byte i of n bytes pairs with shift 8*(n-1-i), in readers, writers and the append form",
		Run: ruleEndianHelpers,
	})
	register(&Rule{
		Name: "flag-maps", Props: []string{"C05", "C01"}, Engine: "CODEC", Floor: 10,
		Doc: "per frame type: every flag tested in Deserialize or set in Serialize is one RFC 7540 s6 defines for that type; a flag Deserialize records in a field is set from that same field by Serialize, and vice versa",
		Run: ruleFlagMaps,
	})
	register(&Rule{
		Name: "codec-field-symmetry", Props: []string{"C05"}, Engine: "CODEC", Floor: 10,
		Doc: "per frame type: every field Deserialize stores (following receiver method calls) is read by Serialize, and Serialize does not source a payload field from the frame header's stream id",
		Run: ruleFieldSymmetry,
	})
	register(&Rule{
		Name: "reserved-bit-mask", Props: []string{"C05"}, Engine: "CODEC", Floor: 8,
		Doc: "a 32-bit wire word read into a 31-bit field (stream id, dependency, promised id, last-stream-id, window increment) is masked with 2^31-1; a full 32-bit field (error code) is not masked",
		Run: ruleReservedBit,
	})
	register(&Rule{
		Name: "fixed-size-exact", Props: []string{"C16", "C05"}, Engine: "CODEC", Floor: 6,
		Doc: "frames of fixed payload size compare the payload length for equality (PRIORITY 5, RST_STREAM 4, PING 8, WINDOW_UPDATE 4; SETTINGS multiple of 6; GOAWAY at least 8) and reject otherwise (RFC 7540 s6.3-6.9: FRAME_SIZE_ERROR)",
		Run: ruleFixedSize,
	})
	register(&Rule{
		Name: "padding-strip", Props: []string{"C05", "C01", "C16"}, Engine: "CODEC", Floor: 8,
		Doc: "DATA/HEADERS/PUSH_PROMISE Deserialize read every later payload byte through the value CutPadding returned on the PADDED path; CutPadding returns payload[1:length-pad] after rejecting pad >= length; HEADERS skips exactly 5 bytes (4 dependency + 1 weight) under PRIORITY, behind a length guard of 5",
		Run: rulePaddingStrip,
	})
}

// ---------------------------------------------------------------- constants

func ruleFrameConstants(p *Prog, r *Out) {
	want := []struct {
		name string
		val  int64
	}{
		{"FrameData", 0}, {"FrameHeaders", 1}, {"FramePriority", 2}, {"FrameResetStream", 3}, {"FrameSettings", 4},
		{"FramePushPromise", 5}, {"FramePing", 6}, {"FrameGoAway", 7}, {"FrameWindowUpdate", 8}, {"FrameContinuation", 9},
		{"FlagAck", 1}, {"FlagEndStream", 1}, {"FlagEndHeaders", 4}, {"FlagPadded", 8}, {"FlagPriority", 0x20},
		{"NoError", 0}, {"ProtocolError", 1}, {"InternalError", 2}, {"FlowControlError", 3}, {"SettingsTimeoutError", 4},
		{"StreamClosedError", 5}, {"FrameSizeError", 6}, {"RefusedStreamError", 7}, {"StreamCanceled", 8},
		{"CompressionError", 9}, {"ConnectionError", 0xa}, {"EnhanceYourCalm", 0xb}, {"InadequateSecurity", 0xc}, {"HTTP11Required", 0xd},
		{"HeaderTableSize", 1}, {"EnablePush", 2}, {"MaxConcurrentStreams", 3}, {"MaxWindowSize", 4}, {"MaxFrameSize", 5}, {"MaxHeaderListSize", 6},
		{"DefaultFrameSize", 9}, {"defaultMaxLen", 1 << 14}, {"defaultHeaderTableSize", 4096}, {"defaultWindowSize", 65535},
		{"defaultDataFrameSize", 1 << 14}, {"maxFrameSize", 1<<24 - 1}, {"maxStreamID", 1<<31 - 1}, {"maxDataFrameSize", 1 << 14},
	}
	for _, w := range want {
		v, ok := p.pkgConst(w.name)
		if !ok {
			r.undecided("const "+w.name, "?", "constant no longer resolves; the rule cannot tell which value the code uses")
			continue
		}
		obj := p.Pkg.Scope().Lookup(w.name)
		r.check(v == w.val, "const "+w.name, p.pos(obj.Pos()), fmt.Sprintf("%s = %#x", w.name, v),
			fmt.Sprintf("%s = %#x, RFC 7540 says %#x", w.name, v, w.val))
	}
	// each implementation's Type() constant is one of 0..9, all distinct
	seen := map[int64]string{}
	for _, fi := range p.frameImpls() {
		key := "Type() of " + fi.Name
		if fi.Kind < 0 || fi.Kind > 9 {
			r.bad(key, "?", fmt.Sprintf("%s.Type() does not return a constant in 0..9", fi.Name))
			continue
		}
		if o, dup := seen[fi.Kind]; dup {
			r.bad(key, "?", fmt.Sprintf("%s and %s both claim frame type %d", o, fi.Name, fi.Kind))
			continue
		}
		seen[fi.Kind] = fi.Name
		r.ok(key, p.pos(fi.Des.Pos()), fmt.Sprintf("%s is %s (%d)", fi.Name, frameTypeNames[fi.Kind], fi.Kind))
	}
	r.check(len(seen) == 10, "ten frame types", "?", "all ten RFC frame types have an implementation", fmt.Sprintf("only %d of the ten frame types have an implementation", len(seen)))
	// connection preface
	found := false
	for _, f := range p.Files {
		ast.Inspect(f, func(n ast.Node) bool {
			vs, ok := n.(*ast.ValueSpec)
			if !ok {
				return true
			}
			for i, id := range vs.Names {
				if id.Name == "http2Preface" && i < len(vs.Values) {
					found = true
					s := ""
					ast.Inspect(vs.Values[i], func(m ast.Node) bool {
						if e, ok := m.(ast.Expr); ok {
							if c := p.constOf(e); c != nil && c.Kind() == constant.String {
								s = constant.StringVal(c)
							}
						}
						return true
					})
					r.check(s == "PRI * HTTP/2.0\r\n\r\nSM\r\n\r\n", "preface", p.pos(id.Pos()), "24-octet client preface", fmt.Sprintf("preface literal %q differs from RFC 7540 s3.5", s))
				}
			}
			return true
		})
	}
	if !found {
		r.undecided("preface", "?", "http2Preface no longer resolves")
	}
	// Settings.Reset installs the RFC initial values the peer is assumed to have
	if fd := p.decl("(*Settings).Reset"); fd != nil {
		r.fn("(*Settings).Reset")
		wantInit := map[string]int64{"tableSize": 4096, "windowSize": 65535, "frameSize": 16384}
		got := map[string]int64{}
		ast.Inspect(fd, func(n ast.Node) bool {
			as, ok := n.(*ast.AssignStmt)
			if !ok || len(as.Lhs) != 1 || len(as.Rhs) != 1 {
				return true
			}
			if sel, ok := as.Lhs[0].(*ast.SelectorExpr); ok {
				if o, f, ok := p.fieldOf(sel); ok && o == "Settings" {
					if v, ok := p.intConst(as.Rhs[0]); ok {
						got[f] = v
					}
				}
			}
			return true
		})
		for f, w := range wantInit {
			g, ok := got[f]
			r.check(ok && g == w, "Settings.Reset "+f, p.pos(fd.Pos()), fmt.Sprintf("initial %s = %d", f, w),
				fmt.Sprintf("Settings.Reset sets %s to %d (found=%v); RFC 7540 s6.5.2 initial value is %d", f, g, ok, w))
		}
	} else {
		r.undecided("Settings.Reset", "?", "method no longer resolves")
	}
}

func ruleFramePools(p *Prog, r *Out) {
	// framePools initialiser: pools[K] = &sync.Pool{New: func() interface{} { return &T{} }}
	impls := map[string]int64{}
	for _, fi := range p.frameImpls() {
		impls[fi.Name] = fi.Kind
	}
	n := 0
	for _, f := range p.Files {
		ast.Inspect(f, func(x ast.Node) bool {
			as, ok := x.(*ast.AssignStmt)
			if !ok || len(as.Lhs) != 1 || len(as.Rhs) != 1 {
				return true
			}
			ix, ok := as.Lhs[0].(*ast.IndexExpr)
			if !ok {
				return true
			}
			id, ok := ix.X.(*ast.Ident)
			if !ok || id.Name != "pools" {
				return true
			}
			k, ok := p.intConst(ix.Index)
			if !ok {
				return true
			}
			// find the composite literal &T{} returned by New
			tname := ""
			ast.Inspect(as.Rhs[0], func(m ast.Node) bool {
				if rs, ok := m.(*ast.ReturnStmt); ok && len(rs.Results) == 1 {
					if u, ok := rs.Results[0].(*ast.UnaryExpr); ok && u.Op == token.AND {
						if cl, ok := u.X.(*ast.CompositeLit); ok {
							if tid, ok := cl.Type.(*ast.Ident); ok {
								tname = tid.Name
							}
						}
					}
				}
				return true
			})
			n++
			key := fmt.Sprintf("pool[%d]", k)
			kind, known := impls[tname]
			r.check(known && kind == k, key, p.pos(as.Pos()), fmt.Sprintf("pool %d builds %s", k, tname),
				fmt.Sprintf("pool for frame type %d builds %q whose Type() is %d: Deserialize would run on the wrong body and every type assertion on Body() is off", k, tname, kind))
			return true
		})
	}
	_ = n
	// AcquireFrame/ReleaseFrame index the same table by the type value
	for _, fn := range []string{"AcquireFrame", "ReleaseFrame"} {
		fd := p.decl(fn)
		if fd == nil {
			r.undecided(fn, "?", "function no longer resolves")
			continue
		}
		r.fn(fn)
		ok := false
		ast.Inspect(fd, func(m ast.Node) bool {
			if ix, okk := m.(*ast.IndexExpr); okk {
				if id, okk := ix.X.(*ast.Ident); okk && id.Name == "framePools" {
					ok = true
				}
			}
			return true
		})
		r.check(ok, fn+" uses framePools", p.pos(fd.Pos()), "indexes framePools", fn+" no longer indexes framePools: acquire and release may use different pools")
	}
}

// ---------------------------------------------------------------- header layout

// sliceBounds returns constant low/high of x[lo:hi] (-1 when absent).
func (p *Prog) sliceBounds(e ast.Expr) (base string, lo, hi int64, ok bool) {
	se, ok2 := ast.Unparen(e).(*ast.SliceExpr)
	if !ok2 {
		return "", 0, 0, false
	}
	lo, hi = 0, -1
	if se.Low != nil {
		v, okk := p.intConst(se.Low)
		if !okk {
			return "", 0, 0, false
		}
		lo = v
	}
	if se.High != nil {
		v, okk := p.intConst(se.High)
		if !okk {
			return "", 0, 0, false
		}
		hi = v
	}
	return p.text(se.X), lo, hi, true
}

func ruleHeaderLayout(p *Prog, r *Out) {
	pv := p.decl("(*FrameHeader).parseValues")
	ph := p.decl("(*FrameHeader).parseHeader")
	if pv == nil || ph == nil {
		r.undecided("anchors", "?", "parseValues/parseHeader no longer resolve")
		return
	}
	r.fn("(*FrameHeader).parseValues", "(*FrameHeader).parseHeader")
	// read side: field <- (helper, offset)
	type rd struct {
		helper string
		lo, hi int64
		masked bool
		found  bool
	}
	reads := map[string]*rd{}
	ast.Inspect(pv, func(n ast.Node) bool {
		as, ok := n.(*ast.AssignStmt)
		if !ok || len(as.Lhs) != 1 {
			return true
		}
		sel, ok := as.Lhs[0].(*ast.SelectorExpr)
		if !ok {
			return true
		}
		o, f, ok := p.fieldOf(sel)
		if !ok || o != "FrameHeader" {
			return true
		}
		d := &rd{found: true, lo: -1, hi: -1}
		ast.Inspect(as.Rhs[0], func(m ast.Node) bool {
			switch x := m.(type) {
			case *ast.CallExpr:
				c := p.calleeOf(x)
				if strings.HasPrefix(c, "http2utils.") {
					d.helper = c
					if len(x.Args) == 1 {
						if _, lo, hi, ok := p.sliceBounds(x.Args[0]); ok {
							d.lo, d.hi = lo, hi
						}
					}
				}
			case *ast.IndexExpr:
				if v, ok := p.intConst(x.Index); ok && d.helper == "" {
					d.lo, d.hi = v, v+1
				}
			case *ast.BinaryExpr:
				if x.Op == token.AND {
					for _, s := range []ast.Expr{x.X, x.Y} {
						if v, ok := p.intConst(s); ok && v == 1<<31-1 {
							d.masked = true
						}
					}
				}
			}
			return true
		})
		reads[f] = d
		return true
	})
	chk := func(field string, helper string, lo, hi int64, masked bool) {
		d := reads[field]
		key := "read " + field
		if d == nil {
			r.bad(key, p.pos(pv.Pos()), "parseValues no longer assigns FrameHeader."+field)
			return
		}
		okk := d.lo == lo && (d.hi == hi || d.hi == -1) && (helper == "" || d.helper == helper) && d.masked == masked
		r.check(okk, key, p.pos(pv.Pos()), fmt.Sprintf("%s <- header[%d:%d] %s masked=%v", field, lo, hi, helper, masked),
			fmt.Sprintf("FrameHeader.%s is read from header[%d:%d] via %q masked=%v; RFC 7540 s4.1 places it at [%d:%d] (%s, masked=%v)", field, d.lo, d.hi, d.helper, d.masked, lo, hi, helper, masked))
	}
	chk("length", "http2utils.BytesToUint24", 0, 3, false)
	chk("kind", "", 3, 4, false)
	chk("flags", "", 4, 5, false)
	chk("stream", "http2utils.BytesToUint32", 5, 9, true)

	// write side
	type wr struct {
		lo, hi int64
		helper string
	}
	writes := map[string]wr{}
	ast.Inspect(ph, func(n ast.Node) bool {
		switch x := n.(type) {
		case *ast.CallExpr:
			c := p.calleeOf(x)
			if strings.HasPrefix(c, "http2utils.") && len(x.Args) == 2 {
				if _, lo, hi, ok := p.sliceBounds(x.Args[0]); ok {
					ast.Inspect(x.Args[1], func(m ast.Node) bool {
						if sel, ok := m.(*ast.SelectorExpr); ok {
							if o, f, ok := p.fieldOf(sel); ok && o == "FrameHeader" {
								writes[f] = wr{lo, hi, c}
							}
						}
						return true
					})
				}
			}
		case *ast.AssignStmt:
			if len(x.Lhs) == 1 && len(x.Rhs) == 1 {
				if ix, ok := x.Lhs[0].(*ast.IndexExpr); ok {
					if v, ok := p.intConst(ix.Index); ok {
						ast.Inspect(x.Rhs[0], func(m ast.Node) bool {
							if sel, ok := m.(*ast.SelectorExpr); ok {
								if o, f, ok := p.fieldOf(sel); ok && o == "FrameHeader" {
									writes[f] = wr{v, v + 1, ""}
								}
							}
							return true
						})
					}
				}
			}
		}
		return true
	})
	chkw := func(field, helper string, lo, hi int64) {
		w, ok := writes[field]
		key := "write " + field
		okk := ok && w.lo == lo && (w.hi == hi || w.hi == -1) && w.helper == helper
		r.check(okk, key, p.pos(ph.Pos()), fmt.Sprintf("%s -> header[%d:%d] %s", field, lo, hi, helper),
			fmt.Sprintf("FrameHeader.%s is written to header[%d:%d] via %q (found=%v); RFC 7540 s4.1 places it at [%d:%d] via %s", field, w.lo, w.hi, w.helper, ok, lo, hi, helper))
	}
	chkw("length", "http2utils.Uint24ToBytes", 0, 3)
	chkw("kind", "", 3, 4)
	chkw("flags", "", 4, 5)
	chkw("stream", "http2utils.Uint32ToBytes", 5, 9)
}

func ruleEndianHelpers(p *Prog, r *Out) {
	// readers: OR of uint32(b[i]) << k
	for _, h := range []struct {
		name string
		n    int64
	}{{"http2utils.BytesToUint24", 3}, {"http2utils.BytesToUint32", 4}} {
		fd := p.decl(h.name)
		if fd == nil {
			r.undecided(h.name, "?", "helper no longer resolves")
			continue
		}
		r.fn(h.name)
		pairs := map[int64]int64{}
		ast.Inspect(fd, func(n ast.Node) bool {
			rs, ok := n.(*ast.ReturnStmt)
			if !ok {
				// also assignments n := a|b|c
				if as, ok := n.(*ast.AssignStmt); ok && len(as.Rhs) == 1 {
					p.collectShiftTerms(as.Rhs[0], pairs)
				}
				return true
			}
			for _, e := range rs.Results {
				p.collectShiftTerms(e, pairs)
			}
			return true
		})
		good := int64(len(pairs)) == h.n
		for i := int64(0); i < h.n; i++ {
			if s, ok := pairs[i]; !ok || s != 8*(h.n-1-i) {
				good = false
			}
		}
		r.check(good, h.name, p.pos(fd.Pos()), fmt.Sprintf("big-endian %v", pairs), fmt.Sprintf("%s combines (index:shift) %v; big-endian needs index i with shift %d-8i", h.name, pairs, 8*(h.n-1)))
	}
	// writers: b[i] = byte(n >> k)
	for _, h := range []struct {
		name string
		n    int64
	}{{"http2utils.Uint24ToBytes", 3}, {"http2utils.Uint32ToBytes", 4}} {
		fd := p.decl(h.name)
		if fd == nil {
			r.undecided(h.name, "?", "helper no longer resolves")
			continue
		}
		r.fn(h.name)
		pairs := map[int64]int64{}
		ast.Inspect(fd, func(n ast.Node) bool {
			as, ok := n.(*ast.AssignStmt)
			if !ok || len(as.Lhs) != 1 || len(as.Rhs) != 1 {
				return true
			}
			ix, ok := as.Lhs[0].(*ast.IndexExpr)
			if !ok {
				return true
			}
			i, ok := p.intConst(ix.Index)
			if !ok {
				return true
			}
			if s, ok := p.shiftOf(as.Rhs[0]); ok {
				pairs[i] = s
			}
			return true
		})
		good := int64(len(pairs)) == h.n
		for i := int64(0); i < h.n; i++ {
			if s, ok := pairs[i]; !ok || s != 8*(h.n-1-i) {
				good = false
			}
		}
		r.check(good, h.name, p.pos(fd.Pos()), fmt.Sprintf("big-endian %v", pairs), fmt.Sprintf("%s stores (index:shift) %v; big-endian needs index i with shift %d-8i", h.name, pairs, 8*(h.n-1)))
	}
	// append form
	if fd := p.decl("http2utils.AppendUint32Bytes"); fd != nil {
		r.fn("http2utils.AppendUint32Bytes")
		var shifts []int64
		ast.Inspect(fd, func(n ast.Node) bool {
			c, ok := n.(*ast.CallExpr)
			if ok && p.calleeOf(c) == "builtin.append" && len(c.Args) == 5 {
				for _, a := range c.Args[1:] {
					if s, ok := p.shiftOf(a); ok {
						shifts = append(shifts, s)
					}
				}
			}
			return true
		})
		good := len(shifts) == 4 && shifts[0] == 24 && shifts[1] == 16 && shifts[2] == 8 && shifts[3] == 0
		r.check(good, "http2utils.AppendUint32Bytes", p.pos(fd.Pos()), "appends 24,16,8,0", fmt.Sprintf("AppendUint32Bytes appends shifts %v; big-endian needs 24,16,8,0", shifts))
	} else {
		r.undecided("http2utils.AppendUint32Bytes", "?", "helper no longer resolves")
	}
}

// shiftOf recognises conv(x >> k) or conv(x) and returns k.
func (p *Prog) shiftOf(e ast.Expr) (int64, bool) {
	e = ast.Unparen(e)
	if c, ok := e.(*ast.CallExpr); ok && len(c.Args) == 1 {
		if tv, ok := p.infoFor(c).Types[c.Fun]; ok && tv.IsType() {
			return p.shiftOf(c.Args[0])
		}
	}
	if b, ok := e.(*ast.BinaryExpr); ok && b.Op == token.SHR {
		if k, ok := p.intConst(b.Y); ok {
			return k, true
		}
		return 0, false
	}
	switch e.(type) {
	case *ast.Ident, *ast.SelectorExpr:
		return 0, true
	}
	return 0, false
}

// collectShiftTerms walks an OR-tree of conv(b[i])<<k terms.
func (p *Prog) collectShiftTerms(e ast.Expr, out map[int64]int64) {
	e = ast.Unparen(e)
	b, ok := e.(*ast.BinaryExpr)
	if ok && b.Op == token.OR {
		p.collectShiftTerms(b.X, out)
		p.collectShiftTerms(b.Y, out)
		return
	}
	shift := int64(0)
	if ok && b.Op == token.SHL {
		k, okk := p.intConst(b.Y)
		if !okk {
			return
		}
		shift = k
		e = ast.Unparen(b.X)
	}
	if c, ok := e.(*ast.CallExpr); ok && len(c.Args) == 1 {
		e = ast.Unparen(c.Args[0])
	}
	if ix, ok := e.(*ast.IndexExpr); ok {
		if i, ok := p.intConst(ix.Index); ok {
			out[i] = shift
		}
	}
}

// ---------------------------------------------------------------- flags

// flagValue finds a Flag* constant inside e and returns its numeric value(s).
func (p *Prog) flagArg(call *ast.CallExpr) (int64, bool) {
	if len(call.Args) != 1 {
		return 0, false
	}
	return p.intConst(call.Args[0])
}

// recvMethodBodies follows calls on the receiver to other methods of the same
// type (depth-limited) and returns the bodies to scan, the method itself first.
func (p *Prog) recvClosure(tname string, fd *ast.FuncDecl, depth int) []*ast.FuncDecl {
	out := []*ast.FuncDecl{fd}
	if depth == 0 || fd == nil || fd.Body == nil {
		return out
	}
	seen := map[*ast.FuncDecl]bool{fd: true}
	inspectCalls(fd.Body, func(c *ast.CallExpr) {
		name := p.calleeOf(c)
		if strings.HasPrefix(name, "(*"+tname+").") {
			if d := p.decl(name); d != nil && !seen[d] {
				seen[d] = true
				out = append(out, p.recvClosure(tname, d, depth-1)...)
			}
		}
	})
	return out
}

func ruleFlagMaps(p *Prog, r *Out) {
	for _, fi := range p.frameImpls() {
		if fi.Des == nil || fi.Ser == nil || fi.Kind < 0 || fi.Kind > 9 {
			r.undecided("impl "+fi.Name, "?", "Deserialize/Serialize/Type() not resolvable")
			continue
		}
		r.fn("(*"+fi.Name+").Deserialize", "(*"+fi.Name+").Serialize")
		allowed := map[int64]bool{}
		for _, f := range rfcFlags[fi.Kind] {
			allowed[f] = true
		}
		desTested := map[int64]bool{}
		desField := map[int64]string{} // flag -> field
		for _, d := range p.recvClosure(fi.Name, fi.Des, 1) {
			// field = X.Has(Flag)
			ast.Inspect(d, func(n ast.Node) bool {
				switch x := n.(type) {
				case *ast.CallExpr:
					if p.calleeOf(x) == "(FrameFlags).Has" {
						if v, ok := p.flagArg(x); ok {
							desTested[v] = true
						}
					}
				case *ast.AssignStmt:
					if len(x.Lhs) == 1 && len(x.Rhs) == 1 {
						if sel, ok := x.Lhs[0].(*ast.SelectorExpr); ok {
							if o, f, ok := p.fieldOf(sel); ok && o == fi.Name {
								inspectCalls(x.Rhs[0], func(c *ast.CallExpr) {
									if p.calleeOf(c) == "(FrameFlags).Has" {
										if v, ok := p.flagArg(c); ok {
											desField[v] = f
										}
									}
								})
							}
						}
					}
				case *ast.IfStmt:
					// if X.Has(Flag) { ...; recv.field = true; ... }
					var fl int64 = -1
					if c, ok := ast.Unparen(x.Cond).(*ast.CallExpr); ok && p.calleeOf(c) == "(FrameFlags).Has" {
						if v, ok := p.flagArg(c); ok {
							fl = v
						}
					}
					if fl >= 0 {
						for _, s := range x.Body.List {
							if as, ok := s.(*ast.AssignStmt); ok && len(as.Lhs) == 1 && len(as.Rhs) == 1 {
								if sel, ok := as.Lhs[0].(*ast.SelectorExpr); ok {
									if o, f, ok := p.fieldOf(sel); ok && o == fi.Name {
										if id, ok := as.Rhs[0].(*ast.Ident); ok && id.Name == "true" {
											desField[fl] = f
										}
									}
								}
							}
						}
					}
				}
				return true
			})
		}
		serField := map[int64]string{}
		for _, d := range p.recvClosure(fi.Name, fi.Ser, 1) {
			ast.Inspect(d, func(n ast.Node) bool {
				ifs, ok := n.(*ast.IfStmt)
				if !ok {
					return true
				}
				field := ""
				switch c := ast.Unparen(ifs.Cond).(type) {
				case *ast.SelectorExpr:
					if o, f, ok := p.fieldOf(c); ok && o == fi.Name {
						field = f
					}
				case *ast.CallExpr:
					// if st.IsAck() style accessor: one-line getter of a field
					name := p.calleeOf(c)
					if strings.HasPrefix(name, "(*"+fi.Name+").") {
						if gd := p.decl(name); gd != nil && gd.Body != nil && len(gd.Body.List) == 1 {
							if rs, ok := gd.Body.List[0].(*ast.ReturnStmt); ok && len(rs.Results) == 1 {
								if sel, ok := rs.Results[0].(*ast.SelectorExpr); ok {
									if o, f, ok := p.fieldOf(sel); ok && o == fi.Name {
										field = f
									}
								}
							}
						}
					}
				}
				if field == "" {
					return true
				}
				inspectCalls(ifs.Body, func(c *ast.CallExpr) {
					if p.calleeOf(c) == "(FrameFlags).Add" {
						if v, ok := p.flagArg(c); ok {
							serField[v] = field
						}
					}
				})
				return true
			})
			// unconditional Add calls (none on the pinned tree) count as set flags
			inspectCalls(d, func(c *ast.CallExpr) {
				if p.calleeOf(c) == "(FrameFlags).Add" {
					if v, ok := p.flagArg(c); ok {
						if _, have := serField[v]; !have {
							serField[v] = "<unconditional>"
						}
					}
				}
			})
		}
		tn := frameTypeNames[fi.Kind]
		for fl := range desTested {
			r.check(allowed[fl], fmt.Sprintf("%s Deserialize tests %#x", fi.Name, fl), p.pos(fi.Des.Pos()),
				fmt.Sprintf("flag %#x is defined for %s", fl, tn), fmt.Sprintf("%s.Deserialize tests flag %#x, which RFC 7540 s6 does not define for %s frames (undefined flags must be ignored)", fi.Name, fl, tn))
		}
		for fl, f := range serField {
			r.check(allowed[fl], fmt.Sprintf("%s Serialize sets %#x", fi.Name, fl), p.pos(fi.Ser.Pos()),
				fmt.Sprintf("flag %#x (from %s) is defined for %s", fl, f, tn), fmt.Sprintf("%s.Serialize sets flag %#x from %s, which RFC 7540 s6 does not define for %s frames", fi.Name, fl, f, tn))
		}
		for fl, f := range desField {
			sf, ok := serField[fl]
			r.check(ok && sf == f, fmt.Sprintf("%s.%s <-> %#x", fi.Name, f, fl), p.pos(fi.Ser.Pos()),
				fmt.Sprintf("flag %#x <-> field %s in both directions", fl, f),
				fmt.Sprintf("%s.Deserialize records flag %#x in field %s but Serialize sets it from %q: a frame built through the API does not carry the flag its field says", fi.Name, fl, f, sf))
		}
		for fl, f := range serField {
			if df, ok := desField[fl]; ok && df != f {
				r.bad(fmt.Sprintf("%s.%s -> %#x", fi.Name, f, fl), p.pos(fi.Ser.Pos()), fmt.Sprintf("Serialize sets flag %#x from %s but Deserialize records it in %s", fl, f, df))
			}
		}
		// every RFC flag of the type that carries meaning for parsing must be tested
		for fl := range allowed {
			r.check(desTested[fl], fmt.Sprintf("%s Deserialize handles %#x", fi.Name, fl), p.pos(fi.Des.Pos()),
				fmt.Sprintf("%s flag %#x is read", tn, fl), fmt.Sprintf("%s.Deserialize never tests flag %#x, which RFC 7540 s6 defines for %s", fi.Name, fl, tn))
		}
	}
}

// fieldsTouched returns the receiver-type fields stored and read in the bodies.
func (p *Prog) fieldsTouched(tname string, bodies []*ast.FuncDecl) (stored, read map[string]bool) {
	stored, read = map[string]bool{}, map[string]bool{}
	for _, d := range bodies {
		if d == nil || d.Body == nil {
			continue
		}
		lhs := map[ast.Node]bool{}
		ast.Inspect(d.Body, func(n ast.Node) bool {
			switch x := n.(type) {
			case *ast.AssignStmt:
				for _, l := range x.Lhs {
					l = ast.Unparen(l)
					if sel, ok := l.(*ast.SelectorExpr); ok {
						if o, f, ok := p.fieldOf(sel); ok && o == tname {
							stored[f] = true
							if x.Tok == token.ASSIGN || x.Tok == token.DEFINE {
								lhs[sel] = true
							}
						}
					}
				}
			case *ast.CallExpr:
				// copy(recv.field[:], ...) stores into the field
				if p.calleeOf(x) == "builtin.copy" && len(x.Args) == 2 {
					ast.Inspect(x.Args[0], func(m ast.Node) bool {
						if sel, ok := m.(*ast.SelectorExpr); ok {
							if o, f, ok := p.fieldOf(sel); ok && o == tname {
								stored[f] = true
								lhs[sel] = true
							}
						}
						return true
					})
				}
			}
			return true
		})
		ast.Inspect(d.Body, func(n ast.Node) bool {
			if sel, ok := n.(*ast.SelectorExpr); ok && !lhs[sel] {
				if o, f, ok := p.fieldOf(sel); ok && o == tname {
					read[f] = true
				}
			}
			return true
		})
	}
	return
}

// exemptions: receiver-side markers that have no wire representation of their own.
var symmetryExempt = map[string]string{
	"Settings.hasWindowSize": "receiver-side presence marker for INITIAL_WINDOW_SIZE; never encoded",
	"Settings.present":       "receiver-side presence markers, one bit per parameter id that was in the frame; never encoded",
	"Settings.tableSizeLow":  "receiver-side: the lowest HEADER_TABLE_SIZE the frame carried (a frame may carry it more than once); never encoded",
	"Settings.rawSettings":   "scratch buffer of Encode",
}

func ruleFieldSymmetry(p *Prog, r *Out) {
	for _, fi := range p.frameImpls() {
		if fi.Des == nil || fi.Ser == nil {
			continue
		}
		desStored, _ := p.fieldsTouched(fi.Name, p.recvClosure(fi.Name, fi.Des, 2))
		// a "read" that is only the append-to-self idiom (x.f = append(x.f[:0], ...)) is not a read of the value
		_, serRead := p.fieldsTouched(fi.Name, p.recvClosure(fi.Name, fi.Ser, 2))
		var fs []string
		for f := range desStored {
			fs = append(fs, f)
		}
		sort.Strings(fs)
		for _, f := range fs {
			key := fi.Name + "." + f
			if why, ok := symmetryExempt[key]; ok {
				r.ok(key, p.pos(fi.Des.Pos()), "exempt: "+why)
				continue
			}
			r.check(serRead[f], key, p.pos(fi.Ser.Pos()), "parsed field is also written",
				fmt.Sprintf("%s.Deserialize fills field %s from the wire but %s.Serialize never reads it: the field set through the API is not what goes on the wire", fi.Name, f, fi.Name))
		}
		// Serialize must not take a payload field from the frame header's stream id
		bad := ""
		for _, d := range p.recvClosure(fi.Name, fi.Ser, 1) {
			ast.Inspect(d.Body, func(n ast.Node) bool {
				if sel, ok := n.(*ast.SelectorExpr); ok {
					if o, f, ok := p.fieldOf(sel); ok && o == "FrameHeader" && (f == "stream" || f == "kind") {
						bad = p.pos(sel.Pos()) + " reads FrameHeader." + f
					}
				}
				if c, ok := n.(*ast.CallExpr); ok && p.calleeOf(c) == "(*FrameHeader).Stream" {
					bad = p.pos(c.Pos()) + " calls FrameHeader.Stream()"
				}
				return true
			})
		}
		r.check(bad == "", fi.Name+".Serialize payload source", p.pos(fi.Ser.Pos()), "payload built from the frame's own fields",
			fmt.Sprintf("%s.Serialize builds its payload from the frame header's stream id (%s): the payload field of the frame value is ignored", fi.Name, bad))
	}
}

// ---------------------------------------------------------------- reserved bit

var field31 = map[string]bool{
	"FrameHeader.stream": true, "Headers.stream": true, "Priority.stream": true,
	"GoAway.stream": true, "PushPromise.stream": true, "WindowUpdate.increment": true,
}
var field32 = map[string]bool{"RstStream.code": true, "GoAway.code": true}

func parentMap(root ast.Node) map[ast.Node]ast.Node {
	pm := map[ast.Node]ast.Node{}
	var stack []ast.Node
	ast.Inspect(root, func(n ast.Node) bool {
		if n == nil {
			stack = stack[:len(stack)-1]
			return true
		}
		if len(stack) > 0 {
			pm[n] = stack[len(stack)-1]
		}
		stack = append(stack, n)
		return true
	})
	return pm
}

func ruleReservedBit(p *Prog, r *Out) {
	for _, f := range p.Files {
		pm := parentMap(f)
		ast.Inspect(f, func(n ast.Node) bool {
			c, ok := n.(*ast.CallExpr)
			if !ok || p.calleeOf(c) != "http2utils.BytesToUint32" {
				return true
			}
			masked := false
			var cur ast.Node = c
			dest := ""
			fn := ""
			for cur != nil {
				par := pm[cur]
				switch x := par.(type) {
				case *ast.BinaryExpr:
					if x.Op == token.AND {
						for _, s := range []ast.Expr{x.X, x.Y} {
							if v, ok := p.intConst(s); ok && v == 1<<31-1 {
								masked = true
							}
						}
					}
				case *ast.AssignStmt:
					if len(x.Lhs) >= 1 {
						if sel, ok := ast.Unparen(x.Lhs[0]).(*ast.SelectorExpr); ok {
							if o, fld, ok := p.fieldOf(sel); ok {
								dest = o + "." + fld
							}
						}
					}
				case *ast.FuncDecl:
					fn = declName(x)
				}
				cur = par
			}
			if dest == "" {
				r.ok(fn+" (value not stored in a frame field)", p.pos(c.Pos()), "not a frame field")
				return true
			}
			key := fn + " -> " + dest
			switch {
			case field31[dest]:
				r.check(masked, key, p.pos(c.Pos()), "31-bit field masked", fmt.Sprintf("%s reads %s from the wire without clearing the reserved high bit: a peer setting it (which receivers must ignore, RFC 7540 s4.1/s6) yields a value above 2^31-1", fn, dest))
			case field32[dest]:
				r.check(!masked, key, p.pos(c.Pos()), "32-bit field unmasked", fmt.Sprintf("%s masks %s to 31 bits, but the field is a full 32-bit value on the wire", fn, dest))
			default:
				r.undecided(key, p.pos(c.Pos()), "BytesToUint32 result stored in a field whose width the rule does not know")
			}
			return true
		})
	}
}

// ---------------------------------------------------------------- fixed size

func ruleFixedSize(p *Prog, r *Out) {
	// type -> required canonical form over L = len(payload)
	type req struct {
		size int64
		kind string // "eq" exact, "ge" minimum, "mod" multiple
	}
	want := map[int64]req{2: {5, "eq"}, 3: {4, "eq"}, 6: {8, "eq"}, 8: {4, "eq"}, 7: {8, "ge"}, 4: {6, "mod"}}
	for _, fi := range p.frameImpls() {
		w, ok := want[fi.Kind]
		if !ok || fi.Des == nil {
			continue
		}
		r.fn("(*" + fi.Name + ").Deserialize")
		key := fi.Name + ".Deserialize payload length"
		// collect rejecting conditions on len(fr.payload)
		var conds []string
		status := "missing"
		ast.Inspect(fi.Des.Body, func(n ast.Node) bool {
			ifs, ok := n.(*ast.IfStmt)
			if !ok {
				return true
			}
			cond := ast.Unparen(ifs.Cond)
			// modulus form
			if b, ok := cond.(*ast.BinaryExpr); ok && w.kind == "mod" {
				if bx, ok := ast.Unparen(b.X).(*ast.BinaryExpr); ok && bx.Op == token.REM && b.Op == token.NEQ {
					if m, ok := p.intConst(bx.Y); ok && m == w.size && strings.HasPrefix(p.text(bx.X), "len(") {
						if z, ok := p.intConst(b.Y); ok && z == 0 {
							status = "ok"
						}
					}
				}
				return true
			}
			cmp, ok := p.canonCmp(cond, nil)
			if !ok {
				return true
			}
			// must be a comparison over exactly one len(...payload) term
			if len(cmp.L.T) != 1 {
				return true
			}
			var term string
			var coef int64
			for t, c := range cmp.L.T {
				term, coef = t, c
			}
			if !strings.HasPrefix(term, "len(") || !strings.Contains(term, "payload") {
				return true
			}
			conds = append(conds, cmp.String())
			// rejecting branch: body must produce an error (assign err or return non-nil)
			switch w.kind {
			case "eq":
				// len != size  => normSign(len - size) != 0
				if cmp.Op == "ne" && coef == 1 && cmp.L.C == -w.size {
					status = "ok"
				} else if cmp.Op == "le" && coef == 1 && cmp.L.C == -w.size+1 { // len < size
					if status != "ok" {
						status = "lower-bound-only"
					}
				}
			case "ge":
				if cmp.Op == "le" && coef == 1 && cmp.L.C == -w.size+1 { // len < size
					status = "ok"
				}
			}
			return true
		})
		tn := frameTypeNames[fi.Kind]
		switch status {
		case "ok":
			r.ok(key, p.pos(fi.Des.Pos()), fmt.Sprintf("%s length check is exact (%s %d)", tn, w.kind, w.size))
		case "lower-bound-only":
			r.bad(key, p.pos(fi.Des.Pos()), fmt.Sprintf("%s.Deserialize rejects only payloads shorter than %d (%v): an over-long %s frame is accepted and its tail ignored, where RFC 7540 s6 requires FRAME_SIZE_ERROR for any length other than %d", fi.Name, w.size, conds, tn, w.size))
		default:
			r.bad(key, p.pos(fi.Des.Pos()), fmt.Sprintf("%s.Deserialize has no payload-length check the rule recognises (found %v); %s frames must be %s %d octets", fi.Name, conds, tn, w.kind, w.size))
		}
	}
}

// ---------------------------------------------------------------- padding

func rulePaddingStrip(p *Prog, r *Out) {
	for _, fi := range p.frameImpls() {
		if fi.Kind != 0 && fi.Kind != 1 && fi.Kind != 5 {
			continue
		}
		if fi.Des == nil {
			continue
		}
		r.fn("(*" + fi.Name + ").Deserialize")
		body := fi.Des.Body
		// 1. an if Has(FlagPadded) block assigns local V from CutPadding
		var padIf *ast.IfStmt
		local := ""
		cutArgsOK := false
		ast.Inspect(body, func(n ast.Node) bool {
			ifs, ok := n.(*ast.IfStmt)
			if !ok {
				return true
			}
			if c, ok := ast.Unparen(ifs.Cond).(*ast.CallExpr); ok && p.calleeOf(c) == "(FrameFlags).Has" {
				if v, ok := p.flagArg(c); ok && v == 0x8 {
					padIf = ifs
					ast.Inspect(ifs.Body, func(m ast.Node) bool {
						if as, ok := m.(*ast.AssignStmt); ok && len(as.Rhs) == 1 {
							if cc, ok := as.Rhs[0].(*ast.CallExpr); ok && p.calleeOf(cc) == "http2utils.CutPadding" {
								if id, ok := as.Lhs[0].(*ast.Ident); ok {
									local = id.Name
								}
								// the length argument must be the length of the first argument's slice
								if len(cc.Args) == 2 {
									a0 := p.text(cc.Args[0])
									a1 := p.text(cc.Args[1])
									if a1 == "len("+a0+")" || ((a1 == "fr.Len()" || a1 == "frh.Len()") && (strings.HasSuffix(a0, "payload"))) {
										cutArgsOK = true
									}
								}
							}
						}
						return true
					})
				}
			}
			return true
		})
		key := fi.Name + ".Deserialize padded path"
		if padIf == nil || local == "" {
			r.bad(key, p.pos(fi.Des.Pos()), fi.Name+".Deserialize has no `if PADDED { v = CutPadding(...) }` block: padding octets would be delivered as content")
			continue
		}
		r.check(cutArgsOK, key+" args", p.pos(padIf.Pos()), "CutPadding(payload, its length)", "CutPadding is not called with (payload, length of that payload)")
		// 2. after the block, no read of FrameHeader.payload: all through local
		leak := ""
		ast.Inspect(body, func(n ast.Node) bool {
			if sel, ok := n.(*ast.SelectorExpr); ok && sel.Pos() > padIf.End() {
				if o, f, ok := p.fieldOf(sel); ok && o == "FrameHeader" && f == "payload" {
					leak = p.pos(sel.Pos())
				}
			}
			return true
		})
		r.check(leak == "", key, p.pos(padIf.Pos()), "payload is read through the de-padded local "+local,
			fmt.Sprintf("%s.Deserialize reads the frame's raw payload at %s after padding was cut: on a PADDED frame the pad length octet and padding reach the consumer", fi.Name, leak))
		// 3. the local is what gets stored
		used := false
		ast.Inspect(body, func(n ast.Node) bool {
			if id, ok := n.(*ast.Ident); ok && id.Name == local && id.Pos() > padIf.End() {
				used = true
			}
			return true
		})
		r.check(used, key+" result used", p.pos(padIf.Pos()), "de-padded value is consumed", "the CutPadding result is never used after the PADDED block")
	}
	// CutPadding itself
	fd := p.decl("http2utils.CutPadding")
	if fd == nil {
		r.undecided("CutPadding", "?", "http2utils.CutPadding no longer resolves")
	} else {
		r.fn("http2utils.CutPadding")
		subst := singleDefs(fd.Body)
		// returned slice
		var lo, hi Lin
		gotSlice := false
		ast.Inspect(fd.Body, func(n ast.Node) bool {
			if se, ok := n.(*ast.SliceExpr); ok && se.Low != nil && se.High != nil {
				lo, hi = p.linOf(se.Low, subst), p.linOf(se.High, subst)
				gotSlice = true
			}
			return true
		})
		wantHi := Lin{T: map[string]int64{"length": 1, "payload[0]": -1}}
		r.check(gotSlice && lo.isConst() && lo.C == 1 && hi.eq(wantHi), "CutPadding slice", p.pos(fd.Pos()), "returns payload[1:length-pad]",
			fmt.Sprintf("CutPadding returns payload[%s : %s]; RFC 7540 s6.1 needs [1 : length - padLength]", lo, hi))
		// guard pad >= length rejected: some rejecting if contains canonical length - pad <= 0
		wantG := Lin{T: map[string]int64{"length": 1, "payload[0]": -1}}
		guard := false
		ast.Inspect(fd.Body, func(n ast.Node) bool {
			ifs, ok := n.(*ast.IfStmt)
			if !ok {
				return true
			}
			var walk func(e ast.Expr)
			walk = func(e ast.Expr) {
				e = ast.Unparen(e)
				if b, ok := e.(*ast.BinaryExpr); ok && b.Op == token.LOR {
					walk(b.X)
					walk(b.Y)
					return
				}
				if c, ok := p.canonCmp(e, subst); ok && c.Op == "le" && c.L.eq(wantG) {
					guard = true
				}
			}
			walk(ifs.Cond)
			return true
		})
		r.check(guard, "CutPadding guard", p.pos(fd.Pos()), "rejects pad >= length", "CutPadding has no rejecting test equivalent to padLength >= length (RFC 7540 s6.1: PROTOCOL_ERROR)")
		// lower bound: length >= 1 and len(payload) >= length
		g2 := false
		ast.Inspect(fd.Body, func(n ast.Node) bool {
			ifs, ok := n.(*ast.IfStmt)
			if !ok {
				return true
			}
			var walk func(e ast.Expr)
			walk = func(e ast.Expr) {
				e = ast.Unparen(e)
				if b, ok := e.(*ast.BinaryExpr); ok && b.Op == token.LOR {
					walk(b.X)
					walk(b.Y)
					return
				}
				if c, ok := p.canonCmp(e, subst); ok && c.Op == "le" {
					// length > len(payload)  => len(payload) - length + 1 <= 0
					if c.L.eq(Lin{T: map[string]int64{"len(payload)": 1, "length": -1}, C: 1}) {
						g2 = true
					}
				}
			}
			walk(ifs.Cond)
			return true
		})
		r.check(g2, "CutPadding length bound", p.pos(fd.Pos()), "rejects length > len(payload)", "CutPadding no longer rejects a length beyond the payload: the slice expression can run past the buffer")
	}
	// HEADERS priority section
	hd := p.decl("(*Headers).Deserialize")
	if hd == nil {
		r.undecided("Headers priority", "?", "(*Headers).Deserialize no longer resolves")
		return
	}
	var prIf *ast.IfStmt
	ast.Inspect(hd.Body, func(n ast.Node) bool {
		if ifs, ok := n.(*ast.IfStmt); ok {
			if c, ok := ast.Unparen(ifs.Cond).(*ast.CallExpr); ok && p.calleeOf(c) == "(FrameFlags).Has" {
				if v, ok := p.flagArg(c); ok && v == 0x20 {
					prIf = ifs
				}
			}
		}
		return true
	})
	if prIf == nil {
		r.bad("Headers priority", p.pos(hd.Pos()), "(*Headers).Deserialize has no PRIORITY block: the 5 priority octets would be decoded as header block")
		return
	}
	guardN, skipN, weightIdx := int64(-1), int64(-1), int64(-1)
	ast.Inspect(prIf.Body, func(n ast.Node) bool {
		switch x := n.(type) {
		case *ast.IfStmt:
			if c, ok := p.canonCmp(x.Cond, nil); ok && c.Op == "le" && len(c.L.T) == 1 {
				for t, co := range c.L.T {
					if strings.HasPrefix(t, "len(") && co == 1 {
						guardN = -c.L.C + 1 // len < N  => len - N + 1 <= 0
					}
				}
			}
		case *ast.SliceExpr:
			if x.Low != nil && x.High == nil {
				if v, ok := p.intConst(x.Low); ok {
					skipN = v
				}
			}
		case *ast.AssignStmt:
			if len(x.Lhs) == 1 && len(x.Rhs) == 1 {
				if sel, ok := x.Lhs[0].(*ast.SelectorExpr); ok {
					if o, f, ok := p.fieldOf(sel); ok && o == "Headers" && f == "weight" {
						if ix, ok := ast.Unparen(x.Rhs[0]).(*ast.IndexExpr); ok {
							if v, ok := p.intConst(ix.Index); ok {
								weightIdx = v
							}
						}
					}
				}
			}
		}
		return true
	})
	r.check(guardN == 5 && skipN == 5 && weightIdx == 4, "Headers priority", p.pos(prIf.Pos()), "guard 5, weight at 4, skip 5",
		fmt.Sprintf("HEADERS priority section: length guard %d, weight index %d, skip %d; RFC 7540 s6.2 has 4 octets of dependency, 1 of weight, i.e. guard 5 / index 4 / skip 5", guardN, weightIdx, skipN))
}
