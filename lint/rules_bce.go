package main

import (
	"bufio"
	"bytes"
	"fmt"
	"go/ast"
	"go/token"
	"os"
	"os/exec"
	"path/filepath"
	"regexp"
	"sort"
	"strconv"
	"strings"
)

func init() {
	register(&Rule{
		Name: "bounds-residual", Props: []string{"C16", "C17", "C12"}, Engine: "BCE", Floor: 40,
		Doc: "the index and slice operations the Go compiler's prove pass could NOT show in range (go build -gcflags=-d=ssa/check_bce/debug=1; nothing is executed) are exactly the reviewed ones, each with the reason it cannot fail; a weakened length guard or a new unchecked index on peer data makes a new entry appear",
		Run: ruleBoundsResidual,
	})
}

// bceJustified: function | kind | expression -> why the operation is in range.
var bceJustified = map[string]string{
	"ConfigureClient|index|c.TLSConfig.NextProtos[i]":                                        "client set-up code, not on a wire path; i ranges over the slice being indexed (the loop deletes while ranging — out of scope of the properties)",
	"(*Conn).writeRequest|index|range-over-func":                                             "compiler-generated bounds check inside the inlined fasthttp header iterator (for k, v := range req.Header.All())",
	"(*Conn).sendPending|slice|pb.body[:n]":                                                  "n <= len(pb.body) by the min idiom and n >= 0 by the clamp (rule cli-chunk-bound decides both)",
	"(*Conn).sendPending|slice|pb.body[n:]":                                                  "same n as the line above",
	"(*Conn).refillPending|slice|pb.buf[:defaultDataFrameSize]":                              "cap(pb.buf) >= defaultDataFrameSize is established by the allocation two lines above",
	"(*Conn).refillPending|slice|buf[:n]":                                                    "n is the count returned by io.Reader.Read(buf), 0 <= n <= len(buf) by the io.Reader contract",
	"(*Conn).writeData|slice|body[i : step+i]":                                               "i < len(body) by the loop condition and step+i <= len(body) by the tail idiom (rule cli-chunk-bound)",
	"AcquireFrame|index|framePools[ftype]":                                                   "every caller passes a constant frame type or the kind readFrom range-checked (rule read-path-structure: type range before pool index)",
	"ReleaseFrame|index|framePools[fr.Type()]":                                               "Type() of every implementation is a constant in 0..9 (rule frame-constants)",
	"(*FrameHeader).parseValues|slice|header[:3]":                                            "header is the 9-octet result of Peek(DefaultFrameSize) (rule read-path-structure: peeks 9 octets)",
	"(*FrameHeader).parseValues|index|header[3]":                                             "9-octet Peek result",
	"(*FrameHeader).parseValues|index|header[4]":                                             "9-octet Peek result",
	"(*FrameHeader).parseValues|slice|header[5:]":                                            "9-octet Peek result; BytesToUint32 needs 4",
	"(*FrameHeader).parseValues|index|header[5:]":                                            "9-octet Peek result; BytesToUint32 needs 4",
	"(*FrameHeader).parseHeader|slice|header[:3]":                                            "header is f.rawHeader[:], a [9]byte array",
	"(*FrameHeader).parseHeader|index|header[3]":                                             "[9]byte array",
	"(*FrameHeader).parseHeader|index|header[4]":                                             "[9]byte array",
	"(*FrameHeader).parseHeader|slice|header[5:]":                                            "[9]byte array",
	"(*FrameHeader).parseHeader|index|header[5:]":                                            "[9]byte array",
	"(*FrameHeader).readFrom|slice|f.payload[:n]":                                            "f.payload was just resized to exactly n by http2utils.Resize (rule read-path-structure: buffer sized to length)",
	"(*FrameHeader).readFrom|index|http2utils.Resize(f.payload, n)":                          "inlined Resize: b[:neededLen] after growing b to at least neededLen",
	"(*FrameHeader).readFrom|slice|http2utils.Resize(f.payload, n)":                          "inlined Resize: b[:neededLen] after growing b to at least neededLen",
	"(*GoAway).Deserialize|index|fr.payload[4:]":                                             "len(fr.payload) >= 8 on this branch (rule fixed-size-exact: GOAWAY at least 8)",
	"(*GoAway).Deserialize|slice|fr.payload[4:]":                                             "len(fr.payload) >= 8 on this branch",
	"(*GoAway).Deserialize|slice|fr.payload[8:]":                                             "len(fr.payload) >= 8 on this branch",
	"(*GoAway).Serialize|slice|fr.payload[:4]":                                               "fr.payload was just built by appending 4 octets to payload[:0]",
	"(*Headers).Serialize|slice|h.rawHeaders[5:]":                                            "5 octets were appended on the line above",
	"(*Headers).Serialize|slice|h.rawHeaders[0:4]":                                           "5 octets were appended two lines above",
	"(*Headers).Serialize|slice|payload[0:4]":                                                "5 octets were appended to the payload on the line above",
	"(*Headers).Serialize|index|h.rawHeaders[4]":                                             "5 octets were appended three lines above",
	"(*HPACK).shrink|index|hp.dynamic[i]":                                                    "i < n <= len(hp.dynamic) by the loop that computed n",
	"(*HPACK).shrink|slice|hp.dynamic[n:]":                                                   "n <= len(hp.dynamic) by the loop that computed n",
	"appendInt|index|dst[len(dst)-1]":                                                        "len(dst) >= 1: an empty dst gets one octet appended first; later octets are appended before the index",
	"appendString|index|dst[nn]":                                                             "nn = len(dst)-1 tested >= 0, or incremented after an append; encoder side, not peer data",
	"(*HPACK).AppendHeader|index|appendInt(append(dst, 0x20), 5, uint64(hp.maxTableSize))":   "inlined appendInt on a slice that just had an octet appended",
	"(*HPACK).AppendHeader|index|appendInt(dst, bits, index)":                                "inlined appendInt; it appends when dst is empty",
	"HuffmanDecode|index|root.sub[idx]":                                                      "idx is a byte (0..255) and every non-leaf node's sub has 256 entries (make([]*huffmanNode, 256) at both creation sites); a leaf is never indexed because the loop resets root at a leaf",
	"(*huffmanNode).add|index|node.sub[i]":                                                   "init-time table construction from the constant code tables; i is a uint8 and sub has 256 entries",
	"(*huffmanNode).add|index|node.sub[i] = &huffmanNode{...}":                               "init-time table construction",
	"(*Priority).Deserialize|index|fr.payload[0]":                                            "len(fr.payload) == 5 on this branch (rule fixed-size-exact)",
	"(*Headers).Serialize|index|h.rawHeaders[0]":                                             "five octets were appended to rawHeaders two statements earlier, under the same condition",
	"(*HPACK).AppendHeader|index|appendInt(append(dst, 0x20), 5, uint64(hp.pendingLowSize))": "inlined appendInt on a slice that just had an octet appended",
	"(*Priority).Deserialize|index|fr.payload[4]":                                            "len(fr.payload) >= 5 on this branch (rule fixed-size-exact)",
	"(*serverConn).handleStreams|index|closedRing[closedOldest]":                             "closedOldest is kept in 0..closedStrmsCap-1 by the modulo and the ring has closedStrmsCap entries on this branch (len == cap tested by the else)",
	"(*serverConn).handleStreams|index|markClosed(fr.Stream(), true)":                        "markClosed inlined at the refusal site: closedOldest is kept in 0..closedStrmsCap-1 by the modulo and the ring has closedStrmsCap entries on this branch (len == cap tested by the else)",
	"(*serverConn).handleStreams|index|strms[0]":                                             "deleteUntil counts streams of strms, and each iteration removes exactly strms[0] via closeStream -> strms.Del",
	"(*serverConn).refillPending|slice|strm.bodyBuf[:maxDataFrameSize]":                      "cap(strm.bodyBuf) >= maxDataFrameSize is established two lines above",
	"(*serverConn).refillPending|slice|buf[:n]":                                              "n is the count returned by io.Reader.Read(buf)",
	"fasthttpResponseHeaders|index|statusBytes(res.Header.StatusCode())":                     "inlined statusBytes clamps code to 100..999 before indexing the [1000] table",
	"fasthttpResponseHeaders|index|range-over-func":                                          "compiler-generated check inside the inlined fasthttp header iterator",
	"(*Settings).Read|slice|d[last:i]":                                                       "last = i-6 >= 0 and i <= n = len(d) by the loop condition",
	"(*Settings).Read|index|b[0]":                                                            "b = d[last:i] has exactly 6 octets",
	"(*Settings).Read|index|b[1]":                                                            "6-octet entry",
	"(*Settings).Read|index|b[2]":                                                            "6-octet entry",
	"(*Settings).Read|index|b[3]":                                                            "6-octet entry",
	"(*Settings).Read|index|b[4]":                                                            "6-octet entry",
	"(*Settings).Read|index|b[5]":                                                            "6-octet entry",
	"statusBytes|index|statusCodes[code]":                                                    "code is clamped to 100..999 before indexing the [1000] table",
	"http2utils.AddPadding|slice|b[:1]":                                                      "b was resized to nn+n with n >= 9",
	"http2utils.AddPadding|slice|b[nn+1:]":                                                   "b has nn+n+1 octets after the prepend, n >= 9",
	"http2utils.AddPadding|index|b[0]":                                                       "non-empty after the prepend",
	"http2utils.Resize|slice|b[:neededLen]":                                                  "b was grown to at least neededLen on the line above",
	"http2utils.CutPadding|slice|payload[1 : length-pad]":                                    "1 <= length-pad <= length <= len(payload) by the two rejecting guards above (rule padding-strip: CutPadding guard, CutPadding length bound)",
	"http2utils.CutPadding|index|payload[0]":                                                 "len(payload) == 0 is rejected first",
	"http2utils.BytesToUint24|index|b[2]":                                                    "explicit bounds hint `_ = b[2]`; every caller passes at least 3 octets (header[:3])",
	"http2utils.BytesToUint32|index|b[3]":                                                    "explicit bounds hint `_ = b[3]`; callers: parseValues header[5:] (4 octets of 9), and Deserialize methods behind their length guards (rule fixed-size-exact)",
	"http2utils.Uint24ToBytes|index|b[2]":                                                    "explicit bounds hint; caller passes header[:3]",
	"http2utils.Uint32ToBytes|index|b[3]":                                                    "explicit bounds hint; callers pass header[5:] of a [9]byte and rawHeaders[0:4]",
	"http2utils.EqualsFold|index|b[i]":                                                       "len(a) == len(b) tested first; not used on a wire path",
	"(*FrameHeader).parseHeader|index|http2utils.Uint32ToBytes(header[5:], f.stream)":        "inlined helper on header[5:] of the [9]byte rawHeader: 4 octets",
	"(*FrameHeader).parseValues|index|http2utils.BytesToUint32(header[5:])":                  "inlined helper on header[5:] of the 9-octet Peek result: 4 octets",
	"(*GoAway).Deserialize|index|http2utils.BytesToUint32(fr.payload[4:])":                   "len(fr.payload) >= 8 on this branch (rule fixed-size-exact: GOAWAY at least 8)",
	"appendString|index|appendInt(dst, 7, n)":                                                "inlined appendInt: it appends one octet first when dst is empty",
	"http2utils.AddPadding|slice|Resize(b, nn+n)":                                            "inlined Resize: b grown to at least nn+n before b[:nn+n]; encoder side",
	"http2utils.AssertEqual|slice|buf.String()":                                              "test helper, inlined bytes.Buffer.String; not library code on any wire path",
}

var bceLine = regexp.MustCompile(`^(.*\.go):(\d+):(\d+): Found (IsInBounds|IsSliceInBounds)`)

type bceEntry struct {
	file      string
	line, col int
	kind      string
}

// runBCE asks the compiler which bounds checks it could not eliminate.
func runBCE(dir string, overlay string) ([]bceEntry, error) {
	args := []string{"build", "-gcflags=-d=ssa/check_bce/debug=1"}
	if overlay != "" {
		args = append(args, "-overlay", overlay)
	}
	args = append(args, "-o", os.DevNull, ".", "./http2utils")
	cmd := exec.Command("go", args...)
	cmd.Dir = dir
	cmd.Env = goEnv()
	var out bytes.Buffer
	cmd.Stderr = &out
	cmd.Stdout = &out
	err := cmd.Run()
	var es []bceEntry
	sc := bufio.NewScanner(&out)
	sc.Buffer(make([]byte, 1<<20), 1<<20)
	sawAny := false
	for sc.Scan() {
		m := bceLine.FindStringSubmatch(sc.Text())
		if m == nil {
			continue
		}
		sawAny = true
		f := m[1]
		if !filepath.IsAbs(f) {
			f = filepath.Join(dir, f)
		}
		l, _ := strconv.Atoi(m[2])
		c, _ := strconv.Atoi(m[3])
		kind := "index"
		if m[4] == "IsSliceInBounds" {
			kind = "slice"
		}
		es = append(es, bceEntry{filepath.Clean(f), l, c, kind})
	}
	if err != nil && !sawAny {
		return nil, fmt.Errorf("go build failed: %v: %s", err, strings.TrimSpace(out.String()))
	}
	if !sawAny {
		// the go command replays compiler diagnostics from its cache; no output at all means something is off
		return nil, fmt.Errorf("the compiler reported no residual bounds checks at all, which is not plausible")
	}
	return es, nil
}

func ruleBoundsResidual(p *Prog, r *Out) {
	// a variant built in memory has no tree on disk to compile: write an overlay
	overlay := ""
	if p.isVariant {
		dir, err := os.MkdirTemp("", "h2lint-bce-")
		if err != nil {
			r.undecided("overlay", "?", err.Error())
			return
		}
		defer os.RemoveAll(dir)
		repl := map[string]string{}
		i := 0
		for f, src := range p.Src {
			if bytes.Equal(src, p.diskSrc[f]) {
				continue
			}
			i++
			tmp := filepath.Join(dir, fmt.Sprintf("f%d.go", i))
			if err := os.WriteFile(tmp, src, 0o644); err != nil {
				r.undecided("overlay", "?", err.Error())
				return
			}
			repl[f] = tmp
		}
		var b strings.Builder
		b.WriteString(`{"Replace":{`)
		first := true
		for k, v := range repl {
			if !first {
				b.WriteString(",")
			}
			first = false
			fmt.Fprintf(&b, "%q:%q", k, v)
		}
		b.WriteString("}}")
		overlay = filepath.Join(dir, "overlay.json")
		if err := os.WriteFile(overlay, []byte(b.String()), 0o644); err != nil {
			r.undecided("overlay", "?", err.Error())
			return
		}
	}
	es, err := runBCE(repoDir, overlay)
	if err != nil {
		r.undecided("compiler report", "?", err.Error())
		return
	}
	type located struct {
		key, pos string
	}
	var ls []located
	for _, e := range es {
		if !strings.HasPrefix(e.file, filepath.Clean(repoDir)+string(os.PathSeparator)) {
			ls = append(ls, located{"", ""}) // dependency code inlined: attributed below by position only
			continue
		}
		key, pos := p.bceKey(e)
		ls = append(ls, located{key, pos})
	}
	seen := map[string]int{}
	var keys []string
	posOf := map[string]string{}
	for _, l := range ls {
		if l.key == "" {
			continue
		}
		seen[l.key]++
		if seen[l.key] == 1 {
			keys = append(keys, l.key)
			posOf[l.key] = l.pos
		}
	}
	sort.Strings(keys)
	for _, k := range keys {
		why, ok := bceJustified[k]
		r.check(ok, k, posOf[k], "reviewed: "+why,
			fmt.Sprintf("the compiler cannot prove `%s` in range and it is not in the reviewed table: if the index or bound is peer-controlled this is an out-of-range panic in the goroutine serving the connection", k))
	}
}

// bceKey maps a compiler position to function|kind|expression.
func (p *Prog) bceKey(e bceEntry) (string, string) {
	var file *ast.File
	all := append(append([]*ast.File{}, p.Files...), p.UFiles...)
	for _, f := range all {
		if filepath.Clean(p.Fset.Position(f.Pos()).Filename) == e.file {
			file = f
		}
	}
	if file == nil {
		return "?|" + e.kind + "|" + filepath.Base(e.file), fmt.Sprintf("%s:%d", relName(e.file), e.line)
	}
	tf := p.Fset.File(file.Pos())
	if e.line > tf.LineCount() {
		return "?|" + e.kind + "|?", fmt.Sprintf("%s:%d", relName(e.file), e.line)
	}
	pos := tf.LineStart(e.line) + token.Pos(e.col-1)
	fn := "?"
	var idx, slc, call, rng ast.Node
	smaller := func(a, b ast.Node) ast.Node {
		if b == nil || nodeLen(a) <= nodeLen(b) {
			return a
		}
		return b
	}
	ast.Inspect(file, func(n ast.Node) bool {
		if n == nil {
			return true
		}
		if pos < n.Pos() || pos >= n.End() {
			return false
		}
		switch x := n.(type) {
		case *ast.FuncDecl:
			fn = declName(x)
			if strings.Contains(e.file, "/http2utils/") {
				fn = "http2utils." + fn
			}
		case *ast.IndexExpr:
			idx = smaller(n, idx)
		case *ast.SliceExpr:
			slc = smaller(n, slc)
		case *ast.CallExpr:
			if _, isConv := p.infoFor(x).Types[x.Fun]; !(isConv && p.infoFor(x).Types[x.Fun].IsType()) {
				call = smaller(n, call)
			}
		case *ast.RangeStmt:
			if pos < x.Body.Pos() {
				rng = n
			}
		}
		return true
	})
	var best ast.Node
	switch {
	case e.kind == "index" && idx != nil && (call == nil || nodeLen(idx) <= nodeLen(call)):
		best = idx
	case e.kind == "slice" && slc != nil && (call == nil || nodeLen(slc) <= nodeLen(call)):
		best = slc
	case call != nil:
		best = call
	case idx != nil:
		best = idx
	case slc != nil:
		best = slc
	case rng != nil:
		best = rng
	}
	expr := "?"
	switch best.(type) {
	case *ast.RangeStmt:
		expr = "range-over-func"
	case nil:
	default:
		expr = p.text(best)
	}
	// an index hint `_ = b[3]` or an IndexExpr on the reported column
	return fn + "|" + e.kind + "|" + expr, fmt.Sprintf("%s:%d", relName(e.file), e.line)
}

func nodeLen(n ast.Node) int { return int(n.End() - n.Pos()) }
