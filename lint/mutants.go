package main

// Mutant is a seeded variant of the current tree, built in memory by one or
// more textual substitutions. It must still type-check. The named rule has to
// report an instance that is not reported on the unchanged tree; Expect, when
// set, must be a substring of that instance's key. Variants test the checker;
// they never change a check's exit status. A variant whose anchor text is not
// in the tree any more is skipped.
type Mutant struct {
	Name   string
	Rule   string
	Subs   []Subst
	Expect string
}

var allMutants []Mutant

func mutant(name, rule, file, old, new string, expect ...string) {
	m := Mutant{Name: name, Rule: rule, Subs: []Subst{{File: file, Old: old, New: new}}}
	if len(expect) > 0 {
		m.Expect = expect[0]
	}
	allMutants = append(allMutants, m)
}
