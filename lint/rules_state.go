package main

// state-table: finite-domain case split over the SSA of the server's per-frame
// state check. For every cell (stream state x frame type x headersFinished x
// END_STREAM x END_HEADERS) the rule follows only the branches whose conditions
// are decided by those finite variables (anything else is split both ways) and
// collects the possible outcomes {accept, connection error(code), stream
// error(code), delegated to the header decoder}. The relation is compared with
// RFC 7540 s5.1 / s6 encoded as allowed-outcome sets. No code is executed: the
// rule walks the SSA graph with an abstract environment of five enumerated
// variables.

import (
	"fmt"
	"go/token"
	"sort"
	"strings"

	"golang.org/x/tools/go/ssa"
)

func init() {
	register(&Rule{
		Name: "state-table", Props: []string{"C08"}, Engine: "CASE", Floor: 200,
		Doc: "for every (stream state, frame type, headers-finished, END_STREAM, END_HEADERS) cell, the outcomes the server's per-frame check (verifyState + handleFrame) can produce are outcomes RFC 7540 s5.1/s6 allows for that cell (a connection error of the same code is accepted where the RFC asks for a stream error), every cell the RFC makes legal has an accepting path, and the state transition (handleState) is the RFC's",
		Run: ruleStateTable,
	})
}

type stEnv struct {
	state int64 // StreamState constant
	kind  int64 // frame type
	hf    bool  // Stream.headersFinished
	es    bool  // END_STREAM flag set
	eh    bool  // END_HEADERS flag set
	// bindings of call results explored so far
	bound map[ssa.Value]*stOutcome
	// State() call results observed at call time (handleState mutates the state)
	stateAt map[ssa.Value]int64
	// error-typed phis resolved along the path being explored: which incoming
	// value each one has (a verdict stored in a variable and acted on later)
	phis map[*ssa.Phi]ssa.Value
}

type stOutcome struct {
	Class string // Accept | GoAway | Reset | Delegated
	Code  int64
	Note  string
}

func (o stOutcome) String() string {
	switch o.Class {
	case "Accept":
		return "accept"
	case "Delegated":
		return "delegated(" + o.Note + ")"
	}
	return fmt.Sprintf("%s(%d)", o.Class, o.Code)
}

type stInterp struct {
	p     *Prog
	steps int
}

// evalBool decides a condition from the environment when it can.
func (it *stInterp) evalBool(v ssa.Value, env *stEnv) (val, known bool) {
	p := it.p
	switch x := v.(type) {
	case *ssa.UnOp:
		if x.Op == token.NOT {
			b, k := it.evalBool(x.X, env)
			return !b, k
		}
		if x.Op == token.MUL {
			if _, o, n, ok := p.loadOfField(x); ok && o == "Stream" && n == "headersFinished" {
				return env.hf, true
			}
		}
	case *ssa.Call:
		switch p.calleeName(x.Common()) {
		case "(*Stream).continuingHeaders":
			return env.kind == 9 && !env.hf, true
		case "(FrameFlags).Has":
			if fl, ok := x.Call.Args[0].(*ssa.Call); ok && p.calleeName(fl.Common()) == "(*FrameHeader).Flags" {
				if m, ok := constInt(x.Call.Args[1]); ok {
					have := int64(0)
					if env.es {
						have |= 1
					}
					if env.eh {
						have |= 4
					}
					// only END_STREAM / END_HEADERS are modelled
					if m&^5 == 0 {
						return have&m == m, true
					}
				}
			}
		}
	case *ssa.BinOp:
		// comparisons of an enumerated call result with a constant
		num := func(a ssa.Value) (int64, bool) {
			if c, ok := constInt(a); ok {
				return c, true
			}
			a = stripConv(a)
			if c, ok := a.(*ssa.Call); ok {
				switch p.calleeName(c.Common()) {
				case "(*Stream).State":
					if v, ok := env.stateAt[c]; ok {
						return v, true
					}
					return env.state, true
				case "(*FrameHeader).Type":
					return env.kind, true
				}
			}
			if u, ok := a.(*ssa.UnOp); ok && u.Op == token.MUL {
				if _, o, n, ok := p.loadOfField(u); ok && o == "Stream" && n == "state" {
					return env.state, true
				}
				if _, o, n, ok := p.loadOfField(u); ok && o == "FrameHeader" && n == "kind" {
					return env.kind, true
				}
			}
			return 0, false
		}
		a, ok1 := num(x.X)
		b, ok2 := num(x.Y)
		if ok1 && ok2 {
			switch x.Op {
			case token.EQL:
				return a == b, true
			case token.NEQ:
				return a != b, true
			case token.LSS:
				return a < b, true
			case token.LEQ:
				return a <= b, true
			case token.GTR:
				return a > b, true
			case token.GEQ:
				return a >= b, true
			}
		}
		// err != nil on a bound call result
		if x.Op == token.NEQ || x.Op == token.EQL {
			for _, pr := range [][2]ssa.Value{{x.X, x.Y}, {x.Y, x.X}} {
				if c, ok := pr[1].(*ssa.Const); ok && c.Value == nil {
					if ph, isPhi := pr[0].(*ssa.Phi); isPhi {
						if v, tracked := env.phis[ph]; tracked {
							isNil, decided := false, false
							switch y := v.(type) {
							case *ssa.Const:
								isNil, decided = y.Value == nil, true
							case *ssa.MakeInterface, *ssa.Call:
								isNil, decided = false, true
							}
							if decided {
								if x.Op == token.NEQ {
									return !isNil, true
								}
								return isNil, true
							}
						}
					}
					if o, ok := env.bound[pr[0]]; ok && o != nil {
						isNil := o.Class == "Accept"
						if x.Op == token.NEQ {
							return !isNil, true
						}
						return isNil, true
					}
				}
			}
		}
	}
	return false, false
}

// interpreted callees: explored recursively instead of being opaque.
var stInterpreted = map[string]bool{
	"(*serverConn).verifyState":       true,
	"(*serverConn).handleHeaderFrame": true,
	"validateRequestPseudoHeaders":    true,
}

// run explores fn from its entry and returns the set of outcomes of its error
// result. It is a reachability computation over nodes (block, start index,
// predecessor, bindings): conditions decided by the environment prune edges,
// all others keep both; no path is enumerated twice.
func (it *stInterp) run(fn *ssa.Function, env *stEnv, depth int) []stOutcome {
	seenOut := map[string]stOutcome{}
	type node struct {
		b     *ssa.BasicBlock
		from  int
		pred  *ssa.BasicBlock
		bkey  string
		bound map[ssa.Value]*stOutcome
		phis  map[*ssa.Phi]ssa.Value
	}
	visited := map[string]bool{}
	// enter: the node for block s reached from b, with the error phis of s resolved
	enter := func(s, b *ssa.BasicBlock, bkey string, bound map[ssa.Value]*stOutcome, phis map[*ssa.Phi]ssa.Value) node {
		np := phis
		for _, in := range s.Instrs {
			ph, ok := in.(*ssa.Phi)
			if !ok {
				break
			}
			if ph.Type().String() != "error" {
				continue
			}
			for ei, pb := range s.Preds {
				if pb != b || ei >= len(ph.Edges) {
					continue
				}
				v := ph.Edges[ei]
				if inner, isPhi := v.(*ssa.Phi); isPhi {
					if r, tracked := phis[inner]; tracked {
						v = r
					}
				}
				if len(np) == len(phis) && (len(phis) == 0 || &np == &phis || true) {
					cp := make(map[*ssa.Phi]ssa.Value, len(phis)+1)
					for k, vv := range phis {
						cp[k] = vv
					}
					np = cp
				}
				np[ph] = v
			}
		}
		return node{s, 0, b, bkey, bound, np}
	}
	keyOf := func(n node) string {
		pi := -1
		if n.pred != nil {
			pi = n.pred.Index
		}
		// the phi bindings in a canonical order: a loop that comes round with the same bindings is the same node
		var pk []string
		for ph, v := range n.phis {
			pk = append(pk, ph.Name()+"="+v.Name())
		}
		sort.Strings(pk)
		return fmt.Sprintf("%d/%d/%d/%s/%s", n.b.Index, n.from, pi, n.bkey, strings.Join(pk, ","))
	}
	work := []node{{fn.Blocks[0], 0, nil, "", env.bound, nil}}
	for len(work) > 0 {
		n := work[len(work)-1]
		work = work[:len(work)-1]
		k := keyOf(n)
		if visited[k] {
			continue
		}
		visited[k] = true
		it.steps++
		if it.steps > 400000 {
			return nil
		}
		b := n.b
	scan:
		for i := n.from; i < len(b.Instrs); i++ {
			switch x := b.Instrs[i].(type) {
			case *ssa.Call:
				name := it.p.calleeName(x.Common())
				if stInterpreted[name] && depth > 0 {
					if callee := x.Common().StaticCallee(); callee != nil && callee != fn {
						outs := it.run(callee, &stEnv{state: env.state, kind: env.kind, hf: env.hf, es: env.es, eh: env.eh, bound: map[ssa.Value]*stOutcome{}}, depth-1)
						for oi := range outs {
							o := outs[oi]
							nb := make(map[ssa.Value]*stOutcome, len(n.bound)+1)
							for kk, v := range n.bound {
								nb[kk] = v
							}
							nb[x] = &o
							work = append(work, node{b, i + 1, n.pred, n.bkey + ";" + x.Name() + "=" + o.String(), nb, n.phis})
						}
						break scan
					}
				}
			case *ssa.Return:
				if len(x.Results) == 0 {
					seenOut["accept"] = stOutcome{Class: "Accept"}
					break scan
				}
				v := it.p.resolveSpill(x, len(x.Results)-1)
				if ph, ok := v.(*ssa.Phi); ok && ph.Block() == b && n.pred != nil {
					for ei, pb := range b.Preds {
						if pb == n.pred && ei < len(ph.Edges) {
							v = ph.Edges[ei]
						}
					}
				}
				if ph, ok := v.(*ssa.Phi); ok {
					if r, tracked := n.phis[ph]; tracked {
						v = r
					}
				}
				// what rejectBlock / rejectBlockFrom hand back is the reason they were given
				// (or a connection error of the decoder's): judged by the reason
				if c, ok := v.(*ssa.Call); ok {
					if nm := it.p.calleeName(c.Common()); nm == "(*serverConn).rejectBlock" || nm == "(*serverConn).rejectBlockFrom" {
						reason := c.Call.Args[len(c.Call.Args)-1]
						if ph, isPhi := reason.(*ssa.Phi); isPhi {
							if r, tracked := n.phis[ph]; tracked {
								reason = r
							}
						}
						if _, isCall := stripIface(reason).(*ssa.Call); isCall {
							v = reason
						}
					}
				}
				for _, o := range it.classify(v, n.bound) {
					seenOut[o.String()] = o
				}
				break scan
			case *ssa.If:
				e2 := *env
				e2.bound = n.bound
				e2.phis = n.phis
				val, known := it.evalBool(x.Cond, &e2)
				for si, s := range b.Succs {
					if known && ((si == 0) != val) {
						continue
					}
					work = append(work, enter(s, b, n.bkey, n.bound, n.phis))
				}
				break scan
			case *ssa.Jump:
				work = append(work, enter(b.Succs[0], b, n.bkey, n.bound, n.phis))
				break scan
			case *ssa.Panic:
				break scan
			}
		}
	}
	var out []stOutcome
	var ks []string
	for k := range seenOut {
		ks = append(ks, k)
	}
	sort.Strings(ks)
	for _, k := range ks {
		out = append(out, seenOut[k])
	}
	return out
}

// classify turns a returned error value into outcomes.
func (it *stInterp) classify(v ssa.Value, bound map[ssa.Value]*stOutcome) []stOutcome {
	p := it.p
	if o, ok := bound[v]; ok && o != nil {
		return []stOutcome{*o}
	}
	switch x := v.(type) {
	case *ssa.Const:
		if x.Value == nil {
			return []stOutcome{{Class: "Accept"}}
		}
	case *ssa.MakeInterface:
		return it.classify(x.X, bound)
	case *ssa.Call:
		name := p.calleeName(x.Common())
		switch name {
		case "NewGoAwayError", "NewResetStreamError", "NewError":
			code := int64(-1)
			if c, ok := constInt(x.Call.Args[0]); ok {
				code = c
			}
			cl := "GoAway"
			if name != "NewGoAwayError" {
				cl = "Reset"
			}
			return []stOutcome{{Class: cl, Code: code}}
		default:
			return []stOutcome{{Class: "Delegated", Note: name}}
		}
	case *ssa.Phi:
		var out []stOutcome
		for _, e := range x.Edges {
			out = append(out, it.classify(e, bound)...)
		}
		return out
	case *ssa.UnOp:
		if a, ok := x.X.(*ssa.Alloc); ok && x.Op == token.MUL {
			var out []stOutcome
			for _, ref := range *a.Referrers() {
				if st, ok := ref.(*ssa.Store); ok && st.Addr == a {
					out = append(out, it.classify(st.Val, bound)...)
				}
			}
			return out
		}
	}
	return []stOutcome{{Class: "Delegated", Note: p.vdescN(v, 2)}}
}

const (
	errProtocol     = 1
	errFlowControl  = 3
	errStreamClosed = 5
	errEnhanceCalm  = 11
)

// rfcAllowed: what RFC 7540 s5.1/s6 allows for a cell. mustAccept: a legal
// frame that has to have an accepting (or header-decoder) path.
func rfcAllowed(state, kind int64, hf, es, eh bool) (allowed func(stOutcome) bool, mustAccept bool, why string) {
	conn := func(codes ...int64) func(stOutcome) bool {
		return func(o stOutcome) bool {
			if o.Class != "GoAway" && o.Class != "Reset" {
				return false
			}
			for _, c := range codes {
				if o.Code == c {
					return true
				}
			}
			return false
		}
	}
	or := func(fs ...func(stOutcome) bool) func(stOutcome) bool {
		return func(o stOutcome) bool {
			for _, f := range fs {
				if f(o) {
					return true
				}
			}
			return false
		}
	}
	accept := func(o stOutcome) bool { return o.Class == "Accept" }
	// what the header decoder itself may answer once the frame is legal for
	// the state: malformed request (stream PROTOCOL_ERROR), COMPRESSION_ERROR,
	// ENHANCE_YOUR_CALM for the size limits
	decoder := func(o stOutcome) bool {
		if o.Class == "Delegated" {
			return true
		}
		return (o.Class == "GoAway" || o.Class == "Reset") && (o.Code == errProtocol || o.Code == 9 || o.Code == errEnhanceCalm)
	}
	const idle, open, half = 0, 2, 3
	switch state {
	case idle:
		switch kind {
		case 1:
			return or(accept, decoder, conn(errProtocol)), true, "HEADERS opens an idle stream (s5.1)"
		case 2:
			return or(accept, conn(errProtocol)), true, "PRIORITY is allowed in every state (s5.1, s6.3); PROTOCOL_ERROR only for a self-dependency"
		default:
			return conn(errProtocol), false, "any other frame on an idle stream is a connection error PROTOCOL_ERROR (s5.1)"
		}
	case open:
		switch kind {
		case 0:
			if hf {
				return or(accept, conn(errEnhanceCalm, errProtocol)), true, "DATA on an open stream (s6.1); a too-large body may be refused"
			}
			return conn(errProtocol), false, "DATA while the header block is still open (s6.2/s6.10)"
		case 1:
			if hf {
				if es {
					return or(accept, decoder, conn(errProtocol)), true, "trailers: a HEADERS frame with END_STREAM, whose block may go on in CONTINUATION frames like any other (s8.1, s6.2)"
				}
				return conn(errProtocol), false, "a second HEADERS that does not end the stream is malformed (s8.1)"
			}
			return or(accept, decoder, conn(errProtocol)), false, "HEADERS while a block is open: the read loop rejects it first; PROTOCOL_ERROR or decoder"
		case 9:
			if !hf {
				return or(accept, decoder, conn(errProtocol)), true, "CONTINUATION of the open block (s6.10)"
			}
			return nil, false, "CONTINUATION with no open block: rejected by the read loop's sequencing rule before it reaches the stream loop; cell unreachable, not judged"
		case 2:
			if hf {
				return or(accept, conn(errProtocol)), true, "PRIORITY on an open stream (s6.3)"
			}
			return or(accept, conn(errProtocol)), false, "PRIORITY inside a header block: the read loop rejects it"
		case 3:
			return or(accept), true, "RST_STREAM closes an open stream (s6.4)"
		case 8:
			return or(accept, conn(errProtocol, errFlowControl)), true, "WINDOW_UPDATE on an open stream (s6.9); 0 increment / overflow are errors"
		default:
			return conn(errProtocol), false, "connection-level frame carrying a stream id (s6.5, s6.7, s6.8) or PUSH_PROMISE from a client (s8.2)"
		}
	case half:
		switch kind {
		case 2:
			return or(accept, conn(errProtocol)), hf, "PRIORITY in half-closed (remote) (s5.1); inside an unfinished header block the read loop rejects it first"
		case 3:
			return or(accept), true, "RST_STREAM in half-closed (remote) (s5.1)"
		case 8:
			return or(accept, conn(errProtocol, errFlowControl)), true, "WINDOW_UPDATE in half-closed (remote) (s5.1)"
		case 9:
			if !hf {
				return or(accept, decoder, conn(errProtocol)), true, "CONTINUATION finishing a block whose HEADERS carried END_STREAM (s6.2)"
			}
			return conn(errStreamClosed, errProtocol), false, "CONTINUATION on a half-closed stream with no open block"
		case 0, 1:
			return conn(errStreamClosed, errProtocol), false, "DATA/HEADERS on half-closed (remote) is STREAM_CLOSED (s5.1)"
		default:
			return conn(errProtocol, errStreamClosed), false, "other frames on a half-closed stream"
		}
	}
	return func(stOutcome) bool { return true }, false, "state not modelled"
}

func ruleStateTable(p *Prog, r *Out) {
	hfn := p.ssaFunc("(*serverConn).handleFrame")
	if hfn == nil || p.ssaFunc("(*serverConn).verifyState") == nil {
		r.undecided("anchors", "?", "handleFrame / verifyState no longer resolve")
		return
	}
	r.fn("(*serverConn).handleFrame", "(*serverConn).verifyState", "handleState")
	stateName := map[int64]string{0: "idle", 2: "open", 3: "half-closed(remote)"}
	for _, name := range []string{"StreamStateIdle", "StreamStateOpen", "StreamStateHalfClosed"} {
		if _, ok := p.pkgConst(name); !ok {
			r.undecided("const "+name, "?", "state constant no longer resolves")
			return
		}
	}
	idle, _ := p.pkgConst("StreamStateIdle")
	open, _ := p.pkgConst("StreamStateOpen")
	half, _ := p.pkgConst("StreamStateHalfClosed")
	canon := map[int64]int64{idle: 0, open: 2, half: 3}
	for _, st := range []int64{idle, open, half} {
		for kind := int64(0); kind <= 9; kind++ {
			for bits := 0; bits < 8; bits++ {
				hf, es, eh := bits&1 != 0, bits&2 != 0, bits&4 != 0
				// cells that cannot occur: idle with headersFinished
				if canon[st] == 0 && hf {
					continue
				}
				it := &stInterp{p: p}
				outs := it.run(hfn, &stEnv{state: st, kind: kind, hf: hf, es: es, eh: eh, bound: map[ssa.Value]*stOutcome{}}, 3)
				allowed, must, why := rfcAllowed(canon[st], kind, hf, es, eh)
				if allowed == nil {
					continue
				}
				key := fmt.Sprintf("%s x %s hf=%v es=%v eh=%v", stateName[canon[st]], frameTypeNames[kind], hf, es, eh)
				var ss []string
				var bad []string
				hasAccept := false
				for _, o := range outs {
					ss = append(ss, o.String())
					if !allowed(o) {
						bad = append(bad, o.String())
					}
					if o.Class == "Accept" || o.Class == "Delegated" {
						hasAccept = true
					}
				}
				if it.steps > 400000 || len(outs) == 0 {
					r.undecided(key, p.pos(hfn.Pos()), "exploration did not finish")
					continue
				}
				switch {
				case len(bad) > 0:
					r.bad(key, p.pos(hfn.Pos()), fmt.Sprintf("in state %s a %s frame (headersFinished=%v END_STREAM=%v END_HEADERS=%v) can end in %v; RFC 7540 allows only: %s. All outcomes: %v", stateName[canon[st]], frameTypeNames[kind], hf, es, eh, bad, why, ss))
				case must && !hasAccept:
					r.bad(key, p.pos(hfn.Pos()), fmt.Sprintf("in state %s a %s frame (headersFinished=%v END_STREAM=%v END_HEADERS=%v) is legal (%s) but every path rejects it: %v", stateName[canon[st]], frameTypeNames[kind], hf, es, eh, why, ss))
				default:
					r.ok(key, p.pos(hfn.Pos()), strings.Join(ss, " | "))
				}
			}
		}
	}
	// transitions: handleState
	hs := p.ssaFunc("handleState")
	if hs == nil {
		r.undecided("handleState", "?", "no longer resolves")
		return
	}
	closed, _ := p.pkgConst("StreamStateClosed")
	for _, st := range []int64{idle, open, half} {
		for kind := int64(0); kind <= 9; kind++ {
			for _, es := range []bool{false, true} {
				next := p.transitionOf(hs, st, kind, es)
				want := st
				switch {
				case kind == 3:
					want = closed
				case st == idle && kind == 1 && es:
					want = half
				case st == idle && kind == 1:
					want = open
				case st == open && (kind == 0 || kind == 1) && es:
					want = half
				}
				key := fmt.Sprintf("transition %s --%s es=%v-->", stateName[canon[st]], frameTypeNames[kind], es)
				r.check(len(next) == 1 && next[0] == want, key, p.pos(hs.Pos()), fmt.Sprintf("-> %v", next),
					fmt.Sprintf("handleState moves a stream in state %s to %v on a %s frame (END_STREAM=%v); RFC 7540 s5.1 gives %d (states: idle=%d open=%d half-closed=%d closed=%d)", stateName[canon[st]], next, frameTypeNames[kind], es, want, idle, open, half, closed))
			}
		}
	}
}

// transitionOf abstractly runs handleState: the state is a tracked cell
// updated by SetState(const) calls and read by State().
func (p *Prog) transitionOf(fn *ssa.Function, st, kind int64, es bool) []int64 {
	results := map[int64]bool{}
	steps := 0
	vals := map[ssa.Value]int64{}
	var walk func(b *ssa.BasicBlock, from int, cur int64, depth int)
	walk = func(b *ssa.BasicBlock, from int, cur int64, depth int) {
		steps++
		if steps > 20000 || depth > 200 {
			return
		}
		for i := from; i < len(b.Instrs); i++ {
			switch x := b.Instrs[i].(type) {
			case *ssa.Call:
				switch p.calleeName(x.Common()) {
				case "(*Stream).SetState":
					if c, ok := constInt(x.Call.Args[1]); ok {
						cur = c
					}
				case "(*Stream).State":
					vals[x] = cur
				}
			case *ssa.Return:
				results[cur] = true
				return
			case *ssa.If:
				it := &stInterp{p: p}
				env := &stEnv{state: cur, kind: kind, es: es, eh: true, hf: true, bound: map[ssa.Value]*stOutcome{}, stateAt: vals}
				val, known := it.evalBool(x.Cond, env)
				for si, s := range b.Succs {
					if known && ((si == 0) != val) {
						continue
					}
					walk(s, 0, cur, depth+1)
				}
				return
			case *ssa.Jump:
				walk(b.Succs[0], 0, cur, depth+1)
				return
			}
		}
	}
	walk(fn.Blocks[0], 0, st, 0)
	var out []int64
	for k := range results {
		out = append(out, k)
	}
	sort.Slice(out, func(i, j int) bool { return out[i] < out[j] })
	return out
}

// idleOutcomeClasses returns the outcome classes handleFrame can reach for a
// frame of the given kind on a stream that is still idle (any flags).
func (p *Prog) idleOutcomeClasses(kind int64) (map[string]bool, bool) {
	hfn := p.ssaFunc("(*serverConn).handleFrame")
	idle, ok := p.pkgConst("StreamStateIdle")
	if hfn == nil || !ok {
		return nil, false
	}
	out := map[string]bool{}
	for bits := 0; bits < 4; bits++ {
		it := &stInterp{p: p}
		outs := it.run(hfn, &stEnv{state: idle, kind: kind, hf: false, es: bits&1 != 0, eh: bits&2 != 0, bound: map[ssa.Value]*stOutcome{}}, 3)
		if it.steps > 400000 || len(outs) == 0 {
			return nil, false
		}
		for _, o := range outs {
			out[o.Class] = true
		}
	}
	return out, true
}

func stripIface(v ssa.Value) ssa.Value {
	if m, ok := v.(*ssa.MakeInterface); ok {
		return m.X
	}
	return v
}
