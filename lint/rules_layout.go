package main

// payload-layout: the octet offsets at which each frame type's Deserialize
// reads, and its Serialize writes, every payload field, against the layouts
// of RFC 7540 s6. The rule interprets the slice arithmetic of the two
// functions (local slice variables, constant re-slicing, the append cursor)
// and compares (field, offset, width) triples with the table below.

import (
	"fmt"
	"go/ast"
	"go/token"
	"sort"
	"strings"
)

type layoutField struct {
	name  string
	offs  []int64 // admissible offsets of the field (two for HEADERS' block: without / with the priority section)
	width int64   // 0 = runs to the end of the payload
}

// RFC 7540 s6.1-s6.10 payload layouts (after the pad-length octet has been cut).
var payloadLayouts = map[string][]layoutField{
	"Data": {{"b", []int64{0}, 0}},
	// exclusive is the top bit of the first octet of the stream dependency
	"Headers":      {{"stream", []int64{0}, 4}, {"exclusive", []int64{0}, 1}, {"weight", []int64{4}, 1}, {"rawHeaders", []int64{0, 5}, 0}},
	"Priority":     {{"stream", []int64{0}, 4}, {"exclusive", []int64{0}, 1}, {"weight", []int64{4}, 1}},
	"RstStream":    {{"code", []int64{0}, 4}},
	"PushPromise":  {{"stream", []int64{0}, 4}, {"header", []int64{4}, 0}},
	"Ping":         {{"data", []int64{0}, 0}},
	"GoAway":       {{"stream", []int64{0}, 4}, {"code", []int64{4}, 4}, {"data", []int64{8}, 0}},
	"WindowUpdate": {{"increment", []int64{0}, 4}},
	"Continuation": {{"rawHeaders", []int64{0}, 0}},
}

func init() {
	register(&Rule{
		Name: "payload-layout", Props: []string{"C05", "C16", "C01", "C02"}, Engine: "CODEC", Floor: 30,
		Doc: "for every frame type, Deserialize reads each payload field from the octet offset and width RFC 7540 s6 gives it (following local slice variables, constant re-slicing and the padding cut), and Serialize writes it at the same offset (following the append cursor); a field of the layout that is not read or not written is reported as well",
		Run: rulePayloadLayout,
	})
}

type layoutAccess struct {
	field string
	offs  []int64
	width int64
	pos   token.Pos
}

func offsKey(o []int64) string {
	s := append([]int64(nil), o...)
	sort.Slice(s, func(i, j int) bool { return s[i] < s[j] })
	var parts []string
	for _, v := range s {
		parts = append(parts, fmt.Sprint(v))
	}
	return strings.Join(parts, "|")
}

func unionOffs(a, b []int64) []int64 {
	m := map[int64]bool{}
	for _, v := range a {
		m[v] = true
	}
	for _, v := range b {
		m[v] = true
	}
	var out []int64
	for v := range m {
		out = append(out, v)
	}
	sort.Slice(out, func(i, j int) bool { return out[i] < out[j] })
	return out
}

// storeTargets maps a method of the frame type that stores its slice
// argument into a field (SetData, SetHeader, Append...) to that field.
func (p *Prog) storeTargets(tname string) map[string]string {
	out := map[string]string{}
	for name, fd := range p.funcDecls {
		if !strings.HasPrefix(name, "(*"+tname+").") || fd.Body == nil || fd.Type.Params == nil || len(fd.Type.Params.List) != 1 || len(fd.Type.Params.List[0].Names) != 1 {
			continue
		}
		param := fd.Type.Params.List[0].Names[0].Name
		ast.Inspect(fd.Body, func(n ast.Node) bool {
			switch x := n.(type) {
			case *ast.AssignStmt:
				if len(x.Lhs) == 1 && len(x.Rhs) == 1 {
					if sel, ok := ast.Unparen(x.Lhs[0]).(*ast.SelectorExpr); ok {
						if o, f, ok := p.fieldOf(sel); ok && o == tname {
							if c, ok := x.Rhs[0].(*ast.CallExpr); ok && p.calleeOf(c) == "builtin.append" && c.Ellipsis.IsValid() && len(c.Args) == 2 && p.text(c.Args[1]) == param {
								// append(f[:0], b...) replaces; append(f, b...) extends: both store b from its start
								out[name] = f
							}
						}
					}
				}
			case *ast.CallExpr:
				if p.calleeOf(x) == "builtin.copy" && len(x.Args) == 2 && p.text(x.Args[1]) == param {
					ast.Inspect(x.Args[0], func(m ast.Node) bool {
						if sel, ok := m.(*ast.SelectorExpr); ok {
							if o, f, ok := p.fieldOf(sel); ok && o == tname {
								out[name] = f
							}
						}
						return true
					})
				}
			}
			return true
		})
	}
	// one level of forwarding: Write(b) { c.AppendHeader(b) }
	for name, fd := range p.funcDecls {
		if !strings.HasPrefix(name, "(*"+tname+").") || fd.Body == nil || out[name] != "" || fd.Type.Params == nil || len(fd.Type.Params.List) != 1 || len(fd.Type.Params.List[0].Names) != 1 {
			continue
		}
		param := fd.Type.Params.List[0].Names[0].Name
		inspectCalls(fd.Body, func(c *ast.CallExpr) {
			if f, ok := out[p.calleeOf(c)]; ok && len(c.Args) == 1 && p.text(c.Args[0]) == param {
				out[name] = f
			}
		})
	}
	return out
}

type layoutEnv map[string][]int64

func (e layoutEnv) clone() layoutEnv {
	o := layoutEnv{}
	for k, v := range e {
		o[k] = append([]int64(nil), v...)
	}
	return o
}

// sliceOff resolves a slice-valued expression to its offsets from the start
// of the (padding-free) payload: a tracked variable, or a constant re-slice of one.
func (p *Prog) sliceOff(env layoutEnv, e ast.Expr) (offs []int64, hi int64, ok bool) {
	e = ast.Unparen(e)
	if base, lo, h, ok := p.sliceBounds(e); ok {
		if b, ok := env[base]; ok {
			for _, v := range b {
				offs = append(offs, v+lo)
			}
			if h >= 0 {
				h += b[0]
			}
			return offs, h, true
		}
		return nil, 0, false
	}
	if b, ok := env[p.text(e)]; ok {
		return b, -1, true
	}
	return nil, 0, false
}

func endsInReturn(b *ast.BlockStmt) bool {
	if b == nil || len(b.List) == 0 {
		return false
	}
	_, ok := b.List[len(b.List)-1].(*ast.ReturnStmt)
	return ok
}

func (p *Prog) layoutReads(tname string, fd *ast.FuncDecl) ([]layoutAccess, []string) {
	var acc []layoutAccess
	var notes []string
	if fd.Type.Params == nil || len(fd.Type.Params.List) != 1 {
		return nil, []string{"unexpected signature"}
	}
	hdr := fd.Type.Params.List[0].Names[0].Name
	env := layoutEnv{hdr + ".payload": {0}}
	stores := p.storeTargets(tname)
	// reads inside an expression
	var readsIn func(env layoutEnv, e ast.Expr) []layoutAccess
	readsIn = func(env layoutEnv, e ast.Expr) []layoutAccess {
		var out []layoutAccess
		ast.Inspect(e, func(n ast.Node) bool {
			switch x := n.(type) {
			case *ast.CallExpr:
				switch p.calleeOf(x) {
				case "http2utils.BytesToUint32":
					if o, _, ok := p.sliceOff(env, x.Args[0]); ok {
						out = append(out, layoutAccess{offs: o, width: 4, pos: x.Pos()})
					} else {
						notes = append(notes, p.pos(x.Pos())+": BytesToUint32 on an untracked slice "+p.text(x.Args[0]))
					}
					return false
				case "builtin.append":
					if x.Ellipsis.IsValid() && len(x.Args) == 2 {
						if o, _, ok := p.sliceOff(env, x.Args[1]); ok {
							out = append(out, layoutAccess{offs: o, width: 0, pos: x.Pos()})
						}
					}
					return false
				case "builtin.len":
					return false
				}
			case *ast.IndexExpr:
				if k, ok := p.intConst(x.Index); ok {
					if o, _, ok := p.sliceOff(env, x.X); ok {
						var oo []int64
						for _, v := range o {
							oo = append(oo, v+k)
						}
						out = append(out, layoutAccess{offs: oo, width: 1, pos: x.Pos()})
						return false
					}
				}
			}
			return true
		})
		return out
	}
	var walk func(env layoutEnv, list []ast.Stmt) layoutEnv
	walk = func(env layoutEnv, list []ast.Stmt) layoutEnv {
		for _, s := range list {
			switch x := s.(type) {
			case *ast.AssignStmt:
				// payload, err = CutPadding(payload, n): same logical start
				if len(x.Rhs) == 1 {
					if c, ok := x.Rhs[0].(*ast.CallExpr); ok && p.calleeOf(c) == "http2utils.CutPadding" {
						if o, _, ok := p.sliceOff(env, c.Args[0]); ok {
							env[p.text(x.Lhs[0])] = o
						}
						continue
					}
				}
				if len(x.Lhs) == 1 && len(x.Rhs) == 1 {
					if sel, ok := ast.Unparen(x.Lhs[0]).(*ast.SelectorExpr); ok {
						if o, f, ok := p.fieldOf(sel); ok && o == tname {
							for _, a := range readsIn(env, x.Rhs[0]) {
								a.field = f
								acc = append(acc, a)
							}
							continue
						}
					}
					if id, ok := x.Lhs[0].(*ast.Ident); ok {
						if o, _, ok := p.sliceOff(env, x.Rhs[0]); ok {
							env[id.Name] = o
						}
					}
				}
			case *ast.ExprStmt:
				if c, ok := x.X.(*ast.CallExpr); ok {
					if f, ok := stores[p.calleeOf(c)]; ok && len(c.Args) == 1 {
						if o, _, ok := p.sliceOff(env, c.Args[0]); ok {
							acc = append(acc, layoutAccess{field: f, offs: o, width: 0, pos: c.Pos()})
						}
					}
				}
			case *ast.IfStmt:
				in := walk(env.clone(), x.Body.List)
				var el layoutEnv
				if x.Else != nil {
					if b, ok := x.Else.(*ast.BlockStmt); ok {
						el = walk(env.clone(), b.List)
					}
				}
				if el != nil {
					// if/else: after the statement either arm's view holds
					if endsInReturn(x.Body) {
						env = el
					} else {
						for k, v := range in {
							el[k] = unionOffs(el[k], v)
						}
						env = el
					}
				} else if !endsInReturn(x.Body) {
					for k, v := range in {
						env[k] = unionOffs(env[k], v)
					}
				}
			case *ast.BlockStmt:
				env = walk(env, x.List)
			}
		}
		return env
	}
	walk(env, fd.Body.List)
	return acc, notes
}

func (p *Prog) recvFieldOf(tname string, e ast.Expr) (string, bool) {
	e = ast.Unparen(e)
	for {
		switch x := e.(type) {
		case *ast.CallExpr: // conversion
			if len(x.Args) == 1 && p.isConversion(x) {
				e = ast.Unparen(x.Args[0])
				continue
			}
			return "", false
		case *ast.SliceExpr:
			if x.Low == nil && x.High == nil {
				e = ast.Unparen(x.X)
				continue
			}
			return "", false
		case *ast.SelectorExpr:
			if o, f, ok := p.fieldOf(x); ok && o == tname {
				return f, true
			}
			return "", false
		default:
			return "", false
		}
	}
}

func (p *Prog) isConversion(c *ast.CallExpr) bool {
	tv, ok := p.infoFor(c).Types[c.Fun]
	return ok && tv.IsType()
}

func (p *Prog) layoutWrites(tname string, fd *ast.FuncDecl) ([]layoutAccess, []string) {
	var acc []layoutAccess
	var notes []string
	hdr := fd.Type.Params.List[0].Names[0].Name
	pay := hdr + ".payload"
	cursor := int64(0)
	prefix := map[string]int64{} // field -> octets prepended to it under a condition
	condAdvance := int64(0)      // octets a conditional branch put in front of what follows (the payload assembled in a local)
	var walk func(list []ast.Stmt)
	walk = func(list []ast.Stmt) {
		for _, s := range list {
			// payload := hdr.payload[:0]: the payload is assembled in a local and stored back at the end
			if as, ok := s.(*ast.AssignStmt); ok && as.Tok == token.DEFINE && len(as.Lhs) == 1 && len(as.Rhs) == 1 {
				if base, lo, hi, ok := p.sliceBounds(as.Rhs[0]); ok && base == hdr+".payload" && lo == 0 && hi == 0 {
					pay = p.text(as.Lhs[0])
					cursor = 0
					continue
				}
			}
			switch x := s.(type) {
			case *ast.IfStmt:
				// if recv.flag { buf[k] |= mask }: a one-bit field kept in octet k
				if f, ok := p.recvFieldOf(tname, x.Cond); ok && len(x.Body.List) == 1 && x.Else == nil {
					if as, ok := x.Body.List[0].(*ast.AssignStmt); ok && as.Tok == token.OR_ASSIGN && len(as.Lhs) == 1 {
						if ix, ok := as.Lhs[0].(*ast.IndexExpr); ok {
							if k, ok := p.intConst(ix.Index); ok {
								if m, ok := p.intConst(as.Rhs[0]); ok && m > 0 && m < 256 && m&(m-1) == 0 {
									acc = append(acc, layoutAccess{field: f, offs: []int64{k}, width: 1, pos: as.Pos()})
									continue
								}
							}
						}
					}
				}
				c0 := cursor
				walk(x.Body.List)
				if x.Else == nil && c0 >= 0 && cursor > c0 && pay != hdr+".payload" {
					// the branch reserved octets in front: what follows sits at c0, or behind them
					condAdvance = cursor - c0
					cursor = c0
				}
				if b, ok := x.Else.(*ast.BlockStmt); ok {
					walk(b.List)
				}
			case *ast.ExprStmt:
				c, ok := x.X.(*ast.CallExpr)
				if !ok {
					continue
				}
				switch p.calleeOf(c) {
				case "(*FrameHeader).setPayload":
					if f, ok := p.recvFieldOf(tname, c.Args[0]); ok {
						acc = append(acc, layoutAccess{field: f, offs: []int64{0}, width: 0, pos: c.Pos()})
					}
				case "http2utils.Uint32ToBytes":
					// Uint32ToBytes(recv.buf[a:b], recv.f) writes f at a inside buf
					if base, lo, hi, ok := p.sliceBounds(c.Args[0]); ok {
						if f, ok := p.recvFieldOf(tname, c.Args[1]); ok {
							w := int64(4)
							if hi >= 0 {
								w = hi - lo
							}
							acc = append(acc, layoutAccess{field: f, offs: []int64{lo}, width: w, pos: c.Pos()})
							_ = base
						}
					}
				case "builtin.copy":
					// copy(recv.buf[N:], recv.buf) after appending N octets: buf's old content moves to N
					if base, lo, _, ok := p.sliceBounds(c.Args[0]); ok && base == p.text(c.Args[1]) {
						if f, ok := p.recvFieldOf(tname, c.Args[1]); ok {
							if prefix[f] != lo {
								notes = append(notes, fmt.Sprintf("%s: %s is shifted by %d octets but %d were appended", p.pos(c.Pos()), f, lo, prefix[f]))
								prefix[f] = -1
							}
						}
					}
				}
			case *ast.AssignStmt:
				if len(x.Lhs) != 1 || len(x.Rhs) != 1 {
					continue
				}
				lhs := p.text(x.Lhs[0])
				// recv.buf[k] = recv.f
				if ix, ok := x.Lhs[0].(*ast.IndexExpr); ok {
					if k, ok := p.intConst(ix.Index); ok {
						_, onRecv := p.recvFieldOf(tname, ix.X)
						if onRecv || p.text(ix.X) == pay {
							if f, ok := p.recvFieldOf(tname, x.Rhs[0]); ok {
								acc = append(acc, layoutAccess{field: f, offs: []int64{k}, width: 1, pos: x.Pos()})
							}
						}
					}
					continue
				}
				c, isCall := x.Rhs[0].(*ast.CallExpr)
				if lhs == pay {
					if !isCall {
						if base, _, hi, ok := p.sliceBounds(x.Rhs[0]); ok && base == pay && hi >= 0 {
							cursor = hi
						}
						continue
					}
					switch p.calleeOf(c) {
					case "http2utils.AppendUint32Bytes":
						at := cursor
						if base, _, hi, ok := p.sliceBounds(c.Args[0]); ok && base == pay && hi >= 0 {
							at = hi
						} else if p.text(c.Args[0]) != pay {
							notes = append(notes, p.pos(c.Pos())+": appends to something other than the payload")
						}
						if f, ok := p.recvFieldOf(tname, c.Args[1]); ok {
							acc = append(acc, layoutAccess{field: f, offs: []int64{at}, width: 4, pos: c.Pos()})
						}
						cursor = at + 4
					case "builtin.append":
						at := cursor
						if base, _, hi, ok := p.sliceBounds(c.Args[0]); ok && base == pay && hi >= 0 {
							at = hi
						}
						if c.Ellipsis.IsValid() {
							if f, ok := p.recvFieldOf(tname, c.Args[1]); ok {
								offs := []int64{at}
								if n, ok := prefix[f]; ok && n > 0 {
									offs = []int64{at, at + n}
								} else if condAdvance > 0 {
									offs = []int64{at, at + condAdvance}
								}
								acc = append(acc, layoutAccess{field: f, offs: offs, width: 0, pos: c.Pos()})
							}
							cursor = -1 << 30
						} else {
							for _, a := range c.Args[1:] {
								if f, ok := p.recvFieldOf(tname, a); ok {
									acc = append(acc, layoutAccess{field: f, offs: []int64{at}, width: 1, pos: c.Pos()})
								}
								at++
							}
							cursor = at
						}
					}
					continue
				}
				// recv.buf = append(recv.buf, 0, 0, ...): N octets to be moved to the front
				if isCall && p.calleeOf(c) == "builtin.append" && !c.Ellipsis.IsValid() {
					if f, ok := p.recvFieldOf(tname, x.Lhs[0]); ok && p.text(c.Args[0]) == lhs {
						zeros := true
						for _, a := range c.Args[1:] {
							if v, ok := p.intConst(a); !ok || v != 0 {
								zeros = false
							}
						}
						if zeros {
							prefix[f] = int64(len(c.Args) - 1)
						} else {
							notes = append(notes, p.pos(c.Pos())+": the octets reserved in front of "+f+" are not all literal zeros")
							prefix[f] = -1
						}
					}
				}
			}
		}
	}
	walk(fd.Body.List)
	if pay != hdr+".payload" {
		// assembled in a local: it reaches the wire only through the store that ends the function
		stored := false
		if n := len(fd.Body.List); n > 0 {
			stored = squash(p.text(fd.Body.List[n-1])) == hdr+".payload="+pay
		}
		if !stored {
			notes = append(notes, fmt.Sprintf("%s: the payload assembled in %s is not stored into %s.payload by the function's last statement: the frame goes out with whatever payload the header had before", p.pos(fd.Pos()), pay, hdr))
		}
	}
	return acc, notes
}

func rulePayloadLayout(p *Prog, r *Out) {
	impls := p.frameImpls()
	seen := 0
	for _, fi := range impls {
		lay, ok := payloadLayouts[fi.Name]
		if !ok {
			continue
		}
		if fi.Des == nil || fi.Ser == nil {
			r.undecided(fi.Name+" codec", "?", "Deserialize/Serialize no longer resolve")
			continue
		}
		seen++
		r.fn("(*"+fi.Name+").Deserialize", "(*"+fi.Name+").Serialize")
		for dir, get := range map[string]func(string, *ast.FuncDecl) ([]layoutAccess, []string){"Deserialize": p.layoutReads, "Serialize": p.layoutWrites} {
			fd := fi.Des
			verb, prep := "reads", "from"
			if dir == "Serialize" {
				fd = fi.Ser
				verb, prep = "writes", "at"
			}
			acc, notes := get(fi.Name, fd)
			for _, n := range notes {
				r.bad(fi.Name+"."+dir+" slice arithmetic", p.pos(fd.Pos()), n)
			}
			known := map[string]layoutField{}
			for _, lf := range lay {
				known[lf.name] = lf
			}
			got := map[string][]layoutAccess{}
			for _, a := range acc {
				got[a.field] = append(got[a.field], a)
			}
			for _, lf := range lay {
				key := fmt.Sprintf("%s.%s %s %s", fi.Name, dir, verb, lf.name)
				as := got[lf.name]
				if len(as) == 0 {
					r.bad(key, p.pos(fd.Pos()), fmt.Sprintf("%s.%s never %s the payload field %s (RFC 7540 s6: octet %s, %s)", fi.Name, dir, verb, lf.name, offsKey(lf.offs), widthText(lf.width)))
					continue
				}
				for _, a := range as {
					good := offsKey(a.offs) == offsKey(lf.offs) && a.width == lf.width
					r.check(good, key, p.pos(a.pos), fmt.Sprintf("octet %s, %s", offsKey(lf.offs), widthText(lf.width)),
						fmt.Sprintf("%s.%s %s %s %s octet %s (%s); RFC 7540 s6 puts it at octet %s (%s)", fi.Name, dir, verb, lf.name, prep, offsKey(a.offs), widthText(a.width), offsKey(lf.offs), widthText(lf.width)))
				}
			}
			for f, as := range got {
				if _, ok := known[f]; !ok {
					r.undecided(fmt.Sprintf("%s.%s %s %s", fi.Name, dir, verb, f), p.pos(as[0].pos), "a field outside the rule's layout table is taken from / put into the payload")
				}
			}
		}
	}
	if seen < len(payloadLayouts) {
		r.bad("frame types covered", "?", fmt.Sprintf("only %d of the %d frame types in the layout table were found", seen, len(payloadLayouts)))
	}
}

func widthText(w int64) string {
	if w == 0 {
		return "to the end of the payload"
	}
	return fmt.Sprintf("%d octet(s)", w)
}

// ---------------------------------------------------------------- padding shape, frame i/o bounds

func init() {
	register(&Rule{
		Name: "padding-shape", Props: []string{"C05", "C16", "C01", "C17"}, Engine: "LIN", Floor: 4,
		Doc: "CutPadding rejects exactly the impossible shapes: each rejecting test is a plain disjunction of comparisons from {no payload, length < 1, length > len(payload), pad >= length} (plus one comparison those imply), so no well-formed padded frame is refused; AddPadding emits pad-length octet n, the data, then n octets, with n at most 255, and the padding octets are zero (RFC 7540 s6.1)",
		Run: rulePaddingShape,
	})
	register(&Rule{
		Name: "frame-io-bounds", Props: []string{"C16", "C05", "C18"}, Engine: "LIN", Floor: 5,
		Doc: "the frame reader enforces the size bound it was given: ReadFrameFromWithSize stores its bound before reading, checkLen rejects exactly when a bound is set and the length exceeds it, the payload is read whenever the length is positive, and the octet counts returned by the reader and the writer are 9 plus what was read / the sum of what was written",
		Run: ruleFrameIOBounds,
	})
}

func rulePaddingShape(p *Prog, r *Out) {
	fd := p.decl("http2utils.CutPadding")
	if fd == nil {
		r.undecided("CutPadding", "?", "http2utils.CutPadding no longer resolves")
	} else {
		r.fn("http2utils.CutPadding")
		subst := singleDefs(fd.Body)
		lin := func(t map[string]int64, c int64) Lin { return Lin{T: t, C: c} }
		allowed := map[string]string{
			Cmp{lin(map[string]int64{"len(payload)": 1}, 0), "eq"}.String():                                "no payload",
			Cmp{lin(map[string]int64{"len(payload)": 1}, 0), "le"}.String():                                "no payload",
			Cmp{lin(map[string]int64{"length": 1}, 0), "le"}.String():                                      "length < 1",
			Cmp{lin(map[string]int64{"len(payload)": 1, "length": -1}, 1), "le"}.String():                  "length > len(payload)",
			Cmp{lin(map[string]int64{"length": 1, "payload[0]": -1}, 0), "le"}.String():                    "pad >= length",
			Cmp{lin(map[string]int64{"len(payload)": 1, "length": -1, "payload[0]": 1}, 2), "le"}.String(): "len(payload) < length-pad-1 (implied by the others)",
		}
		n := 0
		ast.Inspect(fd.Body, func(nd ast.Node) bool {
			ifs, ok := nd.(*ast.IfStmt)
			if !ok || !isRejectingBody(p, ifs.Body) {
				return true
			}
			n++
			atoms, pure := pureJunction(ifs.Cond, false)
			bad := ""
			if !pure {
				bad = "the condition is not a plain disjunction of comparisons"
			}
			for _, a := range atoms {
				if a.Val {
					bad = "negated term " + p.text(a.Cond)
					continue
				}
				c, ok := p.canonCmp(a.Cond, subst)
				if !ok {
					bad = "term " + p.text(a.Cond) + " is not an integer comparison"
					continue
				}
				if _, ok := allowed[c.String()]; !ok {
					bad = fmt.Sprintf("term `%s` (%s) rejects shapes RFC 7540 s6.1 allows, or no longer rejects an impossible one", p.text(a.Cond), c.String())
				}
			}
			r.check(bad == "", fmt.Sprintf("CutPadding rejecting test %d refuses only impossible shapes", n), p.pos(ifs.Pos()), "disjunction over {no payload, length<1, length>len, pad>=length}",
				"CutPadding's rejecting test `"+p.text(ifs.Cond)+"`: "+bad)
			return true
		})
		if n < 2 {
			r.bad("CutPadding rejecting tests", p.pos(fd.Pos()), fmt.Sprintf("only %d rejecting tests found in CutPadding", n))
		}
	}
	ad := p.decl("http2utils.AddPadding")
	if ad == nil {
		r.undecided("AddPadding", "?", "http2utils.AddPadding no longer resolves")
		return
	}
	r.fn("http2utils.AddPadding")
	subst := singleDefs(ad.Body)
	_ = subst
	// n = Uint32n(K) + B with K + B <= 256 (so n <= 255) and B >= 0
	rangeOK, resizeOK, shiftOK, padLenOK, zeroOK := false, false, false, false, false
	randomFill := ""
	ast.Inspect(ad.Body, func(nd ast.Node) bool {
		switch x := nd.(type) {
		case *ast.AssignStmt:
			if len(x.Lhs) != 1 || len(x.Rhs) != 1 {
				return true
			}
			lhs := p.text(x.Lhs[0])
			if lhs == "n" {
				if b, ok := ast.Unparen(x.Rhs[0]).(*ast.BinaryExpr); ok && b.Op == token.ADD {
					base, okb := p.intConst(b.Y)
					var k int64 = -1
					ast.Inspect(b.X, func(m ast.Node) bool {
						if c, ok := m.(*ast.CallExpr); ok && strings.HasSuffix(p.calleeOf(c), "Uint32n") && len(c.Args) == 1 {
							if v, ok := p.intConst(c.Args[0]); ok {
								k = v
							}
						}
						return true
					})
					// Uint32n(k) is in [0, k): n <= k - 1 + base
					rangeOK = okb && k > 0 && base >= 0 && k-1+base <= 255
				}
			}
			if lhs == "b" {
				if c, ok := x.Rhs[0].(*ast.CallExpr); ok {
					switch p.calleeOf(c) {
					case "http2utils.Resize":
						resizeOK = p.linOf(c.Args[1], nil).eq(Lin{T: map[string]int64{"nn": 1, "n": 1}})
					case "builtin.append":
						if base, lo, hi, ok := p.sliceBounds(c.Args[0]); ok && base == "b" && lo == 0 && hi == 1 && c.Ellipsis.IsValid() && p.text(c.Args[1]) == "b" {
							shiftOK = true
						}
					}
				}
			}
			if squash(lhs) == "b[0]" && strings.Contains(p.text(x.Rhs[0]), "n") && p.ubKey(x.Rhs[0]) == "n" {
				padLenOK = true
			}
		case *ast.CallExpr:
			name := p.calleeOf(x)
			if name == "builtin.clear" && len(x.Args) == 1 {
				if se, ok := ast.Unparen(x.Args[0]).(*ast.SliceExpr); ok && p.text(se.X) == "b" && se.High == nil && se.Low != nil &&
					p.linOf(se.Low, nil).eq(Lin{T: map[string]int64{"nn": 1}, C: 1}) {
					zeroOK = true
				}
			}
			if strings.HasSuffix(name, "rand.Read") {
				randomFill = p.pos(x.Pos())
			}
		}
		return true
	})
	r.check(rangeOK, "AddPadding pad length fits one octet", p.pos(ad.Pos()), "n = Uint32n(K)+B with K-1+B <= 255", "AddPadding can choose a pad length above 255: the pad-length octet wraps and the frame's padding no longer matches it")
	r.check(resizeOK && shiftOK && padLenOK, "AddPadding layout", p.pos(ad.Pos()), "[n][data][n octets]", "AddPadding no longer builds pad-length octet n, the data, then n padding octets (Resize(b, len+n); shift by one; b[0] = n): the receiver strips the wrong number of octets")
	r.check(zeroOK && randomFill == "", "AddPadding padding octets are zero", p.pos(ad.Pos()), "clear(b[len+1:])", "AddPadding does not zero the padding octets (random fill at "+randomFill+"): RFC 7540 s6.1 says padding octets MUST be set to zero when sending, and a receiver may treat non-zero padding as PROTOCOL_ERROR")
}

func ruleFrameIOBounds(p *Prog, r *Out) {
	if fd := p.decl("(*FrameHeader).checkLen"); fd != nil {
		r.fn("(*FrameHeader).checkLen")
		ok := false
		for _, s := range fd.Body.List {
			if ifs, isIf := s.(*ast.IfStmt); isIf && isRejectingBody(p, ifs.Body) {
				atoms := conjuncts(ifs.Cond, true)
				set, over := false, false
				for _, a := range atoms {
					if !a.Val {
						continue
					}
					if c, okc := p.canonCmp(a.Cond, nil); okc {
						if c.Op == "ne" && c.L.eq(Lin{T: map[string]int64{"f.maxLen": 1}}) {
							set = true
						}
						if c.Op == "le" && c.L.eq(Lin{T: map[string]int64{"f.maxLen": 1, "f.length": -1}, C: 1}) {
							over = true
						}
					}
				}
				ok = set && over && len(atoms) == 2 && strings.Contains(p.text(ifs.Body), "ErrPayloadExceeds")
			}
		}
		r.check(ok, "checkLen rejects exactly length > bound", p.pos(fd.Pos()), "maxLen != 0 && length > maxLen -> ErrPayloadExceeds", "FrameHeader.checkLen no longer rejects exactly when a bound is set and the frame's length exceeds it: oversized frames are read (and allocated for), or frames of exactly the negotiated size are refused")
	} else {
		r.undecided("(*FrameHeader).checkLen", "?", "no longer resolves")
	}
	if fd := p.decl("ReadFrameFromWithSize"); fd != nil {
		r.fn("ReadFrameFromWithSize")
		setIdx, readIdx := -1, -1
		for i, s := range fd.Body.List {
			if as, ok := s.(*ast.AssignStmt); ok && len(as.Rhs) == 1 {
				if len(as.Lhs) == 1 && p.isFieldSel(as.Lhs[0], "FrameHeader", "maxLen") && p.text(as.Rhs[0]) == fd.Type.Params.List[1].Names[0].Name {
					setIdx = i
				}
				if c, ok := as.Rhs[0].(*ast.CallExpr); ok && strings.Contains(p.calleeOf(c), "ReadFrom") {
					readIdx = i
				}
			}
		}
		r.check(setIdx >= 0 && readIdx > setIdx, "reader applies the caller's bound", p.pos(fd.Pos()), "fr.maxLen = max; fr.ReadFrom(br)", "ReadFrameFromWithSize no longer stores its bound in the frame header before reading: the negotiated SETTINGS_MAX_FRAME_SIZE is not enforced on received frames")
	} else {
		r.undecided("ReadFrameFromWithSize", "?", "no longer resolves")
	}
	if fd := p.decl("(*FrameHeader).readFrom"); fd != nil {
		r.fn("(*FrameHeader).readFrom", "(*FrameHeader).WriteTo")
		guard, start, add := false, false, false
		ast.Inspect(fd.Body, func(n ast.Node) bool {
			switch x := n.(type) {
			case *ast.IfStmt:
				if c, ok := p.canonCmp(x.Cond, nil); ok && c.Op == "le" && c.L.eq(Lin{T: map[string]int64{"f.length": -1}, C: 1}) {
					inspectCalls(x.Body, func(cl *ast.CallExpr) {
						if p.calleeOf(cl) == "io.ReadFull" {
							guard = true
						}
					})
				}
			case *ast.AssignStmt:
				if len(x.Lhs) == 1 && p.text(x.Lhs[0]) == "rn" {
					if x.Tok == token.DEFINE && p.ubKey(x.Rhs[0]) == "DefaultFrameSize" {
						start = true
					}
					if x.Tok == token.ADD_ASSIGN && p.ubKey(x.Rhs[0]) == "n" {
						add = true
					}
				}
			}
			return true
		})
		r.check(guard, "payload read whenever length > 0", p.pos(fd.Pos()), "if f.length > 0 { ReadFull }", "readFrom no longer reads the payload exactly when the length is positive: a one-octet payload stays in the stream and is parsed as the next frame header")
		r.check(start && add, "reader reports 9 + payload octets", p.pos(fd.Pos()), "rn := 9; rn += n", "readFrom's returned count is no longer 9 plus the payload octets read")
	}
	if fd := p.decl("(*FrameHeader).WriteTo"); fd != nil {
		adds := 0
		ast.Inspect(fd.Body, func(n ast.Node) bool {
			if as, ok := n.(*ast.AssignStmt); ok && len(as.Lhs) == 1 && p.text(as.Lhs[0]) == "wb" && as.Tok == token.ADD_ASSIGN && p.ubKey(as.Rhs[0]) == "n" {
				adds++
			}
			return true
		})
		r.check(adds == 2, "writer reports header + payload octets", p.pos(fd.Pos()), "wb += n after each Write", "WriteTo's returned count is no longer the sum of the header and payload octets written")
	}
}
