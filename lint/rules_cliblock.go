package main

import (
	"fmt"
	"go/ast"
	"go/token"
	"strings"
)

// The client's read loop keeps the state of the header block that is arriving
// on the connection (Conn.block): the bytes of a field cut by a frame boundary,
// the number of fields decoded, whether a regular field was seen and whether
// the block ends the stream. The rules here pin the three pieces that every
// client decode loop is built from, so that the loops themselves only have to
// be shown to use them.

func init() {
	register(&Rule{
		Name: "client-block-state", Props: []string{"C02", "C09", "C03", "C20"}, Engine: "AST", Floor: 11,
		Doc: "headerBlock.open starts a block exactly on a non-CONTINUATION frame (no carried bytes, no fields, no regular field seen, END_STREAM as the frame says) and returns the carried bytes followed by the frame's fragment; Conn.nextField tells the decoder the block position, keeps the bytes of a field cut by the frame boundary exactly when no END_HEADERS was seen (handing back an empty field), and makes every other decoding error a connection error; Conn.skipFields decodes its whole input with it, counting fields, and returns the reason it was given; readHeader decodes from open() with nextField, counts each field before it judges it and turns a response away only through skipFields with its cursor; skipHeaderBlock does the same for a block nobody waits for; a response ends with DATA+END_STREAM or with the END_HEADERS of a block whose HEADERS carried END_STREAM; a response turned away is reset with PROTOCOL_ERROR unless the server reset it, and a connection-class error stops the read loop",
		Run: ruleClientBlock,
	})
}

func (p *Prog) clientBlockOK() (bool, []string) {
	if v, ok := p.memo["clientBlockOK"]; ok {
		x := v.([]interface{})
		return x[0].(bool), x[1].([]string)
	}
	var why []string
	fail := func(s string) { why = append(why, s) }
	// open
	if fd := p.decl("(*headerBlock).open"); fd == nil {
		fail("(*headerBlock).open no longer resolves")
	} else {
		l := fd.Body.List
		okStart := false
		if len(l) == 4 {
			if ifs, ok := l[0].(*ast.IfStmt); ok && squash(p.text(ifs.Cond)) == "fr.Type()!=FrameContinuation" && ifs.Else == nil {
				b := ifs.Body.List
				okStart = hasStmt(p, b, "hb.carry=hb.carry[:0]") && hasStmt(p, b, "hb.fields=0") && hasStmt(p, b, "hb.regularSeen=false") && hasStmt(p, b, "hb.endStream=fr.Flags().Has(FlagEndStream)")
				// anything else in there clears a mark of the block
				for _, t := range stmtTexts(p, b) {
					switch t {
					case "hb.carry=hb.carry[:0]", "hb.fields=0", "hb.regularSeen=false", "hb.endStream=fr.Flags().Has(FlagEndStream)":
					default:
						if !(strings.HasPrefix(t, "hb.") && strings.HasSuffix(t, "=false")) {
							okStart = false
						}
						// ... of the block, not a mark its caller has just set for it: what
						// readStreamOwned stores into the block before it hands the frame on
						// (whether the block is the trailers) must survive open
						if fld := strings.TrimSuffix(strings.TrimPrefix(t, "hb."), "=false"); p.blockFieldsSetByCaller()[fld] {
							okStart = false
						}
					}
				}
			}
		}
		if !okStart {
			fail("open no longer starts a block (no carried bytes, field count 0, no regular field, END_STREAM from the frame) exactly on a frame that is not a CONTINUATION")
		}
		if len(l) != 4 || squash(p.text(l[1])) != "b:=append(hb.carry,fr.Body().(FrameWithHeaders).Headers()...)" || squash(p.text(l[2])) != "hb.carry=b[:0]" || squash(p.text(l[3])) != "returnb" {
			fail("open no longer returns the carried bytes followed by the frame's fragment (keeping the buffer)")
		}
	}
	// nextField
	if fd := p.decl("(*Conn).nextField"); fd == nil {
		fail("(*Conn).nextField no longer resolves")
	} else {
		l := fd.Body.List
		if len(l) != 4 || squash(p.text(l[0])) != "pb:=b" || squash(p.text(l[1])) != "b,err:=c.dec.nextField(hf,c.block.fields==0,c.block.fields,b)" || squash(p.text(l[3])) != "returnb,nil" {
			fail("nextField is no longer: save the cursor; decode one field at the block's position with the connection's decoder; hand back the rest")
		} else if ifs, ok := l[2].(*ast.IfStmt); !ok || squash(p.text(ifs.Cond)) != "err!=nil" || len(ifs.Body.List) != 2 || ifs.Else != nil {
			fail("nextField's error branch is no longer the cut-field test followed by the connection error")
		} else {
			cut, conn := false, false
			if in, ok := ifs.Body.List[0].(*ast.IfStmt); ok && p.isConjunctionOf(in.Cond, "errors.Is(err,ErrUnexpectedSize)", "!fr.Flags().Has(FlagEndHeaders)") && in.Else == nil {
				b := in.Body.List
				if len(b) == 3 && squash(p.text(b[0])) == "c.block.carry=append(c.block.carry,pb...)" && squash(p.text(b[1])) == "hf.Reset()" && squash(p.text(b[2])) == "returnnil,nil" {
					cut = true
				}
			}
			if rs, ok := ifs.Body.List[1].(*ast.ReturnStmt); ok && len(rs.Results) == 2 && p.text(rs.Results[0]) == "nil" {
				if cl, code, ok := p.errorCall(rs.Results[1]); ok && cl == "GoAway" && code == 9 {
					conn = true
				}
			}
			if !cut {
				fail("a field cut by the end of the frame is no longer kept for the next frame (saved cursor appended to the carried bytes, the half-decoded field emptied, no bytes and no error handed back) exactly when END_HEADERS has not been seen")
			}
			if !conn {
				fail("a decoding error is no longer a connection error (GOAWAY-class COMPRESSION_ERROR)")
			}
		}
	}
	// skipFields
	if fd := p.decl("(*Conn).skipFields"); fd == nil {
		fail("(*Conn).skipFields no longer resolves")
	} else {
		names := []string{}
		for _, f := range fd.Type.Params.List {
			for _, n := range f.Names {
				names = append(names, n.Name)
			}
		}
		var loop *ast.ForStmt
		for _, s := range fd.Body.List {
			if fs, ok := s.(*ast.ForStmt); ok {
				loop = fs
			}
		}
		if len(names) != 3 || loop == nil || loop.Init != nil || loop.Post != nil || squash(p.text(loop.Cond)) != "len("+names[1]+")>0" {
			fail("skipFields is no longer a loop over the whole of its input")
		} else {
			frn, b, reason := names[0], names[1], names[2]
			body := loop.Body.List
			want := []string{"varerrerror", b + ",err=c.nextField(hf," + frn + "," + b + ")", "", "", "c.block.fields++"}
			okBody := len(body) == 5
			if okBody {
				for i, w := range want {
					if w != "" && squash(p.text(body[i])) != w {
						okBody = false
					}
				}
			}
			if okBody {
				e1, ok1 := body[2].(*ast.IfStmt)
				e2, ok2 := body[3].(*ast.IfStmt)
				okBody = ok1 && ok2 && squash(p.text(e1.Cond)) == "err!=nil" && len(e1.Body.List) == 1 && squash(p.text(e1.Body.List[0])) == "returnerr" &&
					isNoFieldTest(p, e2.Cond) && len(e2.Body.List) == 1 && squash(p.text(e2.Body.List[0])) == "break"
			}
			if !okBody {
				fail("skipFields' loop is no longer: decode a field; error -> returned; nothing decoded at the end of the input -> stop; count the field")
			}
			last := retResults(fd.Body.List[len(fd.Body.List)-1])
			if len(last) != 1 || p.text(last[0]) != reason {
				fail("skipFields no longer returns the reason it was given")
			}
		}
	}
	p.memo["clientBlockOK"] = []interface{}{len(why) == 0, why}
	return len(why) == 0, why
}

func ruleClientBlock(p *Prog, r *Out) {
	r.fn("(*headerBlock).open", "(*Conn).nextField", "(*Conn).skipFields", "(*Conn).readHeader", "(*Conn).skipHeaderBlock", "(*Conn).endsStream", "(*Conn).dispatch")
	pos := func(name string) string {
		if fd := p.decl(name); fd != nil {
			return p.pos(fd.Pos())
		}
		return "?"
	}
	ok, why := p.clientBlockOK()
	r.check(ok, "the client's block state is kept exactly", pos("(*Conn).nextField"), "open / nextField / skipFields as described", "the pieces the client's header decoding is built from are no longer exact: "+strings.Join(why, "; "))

	// readHeader
	if fd := p.decl("(*Conn).readHeader"); fd != nil {
		var loop *ast.ForStmt
		opened := false
		for _, s := range fd.Body.List {
			if squash(p.text(s)) == "b:=c.block.open(fr)" {
				opened = true
			}
			if fs, ok := s.(*ast.ForStmt); ok {
				loop = fs
			}
		}
		r.check(opened, "readHeader decodes from the block's carried bytes", p.pos(fd.Pos()), "b := c.block.open(fr)", "readHeader no longer starts from what the previous frame of the block left over followed by this frame's fragment")
		if loop == nil || squash(p.text(loop.Cond)) != "len(b)>0" {
			r.bad("readHeader loop", p.pos(fd.Pos()), "no `for len(b) > 0` loop")
		} else {
			body := loop.Body.List
			head := len(body) >= 4 && squash(p.text(body[0])) == "b,err=c.nextField(hf,fr,b)"
			if head {
				e1, ok1 := body[1].(*ast.IfStmt)
				e2, ok2 := body[2].(*ast.IfStmt)
				head = ok1 && ok2 && squash(p.text(e1.Cond)) == "err!=nil" && len(e1.Body.List) == 1 && squash(p.text(e1.Body.List[0])) == "returnerr" &&
					isNoFieldTest(p, e2.Cond) && len(e2.Body.List) == 1 && squash(p.text(e2.Body.List[0])) == "break" &&
					squash(p.text(body[3])) == "c.block.fields++"
			}
			r.check(head, "readHeader counts each field before it judges it", p.pos(loop.Pos()), "nextField; error -> returned; nothing decoded -> stop; fields++; then the validators", "readHeader's loop no longer begins: decode with nextField; a decoding error is returned as it is; a call that decoded nothing ends the loop; the field is counted: a dynamic table size update after a rejected field is accepted, or a half-decoded field is judged")
			// every other return inside the loop goes through skipFields with the cursor
			n, good := 0, 0
			ast.Inspect(loop.Body, func(nd ast.Node) bool {
				rs, ok := nd.(*ast.ReturnStmt)
				if !ok || len(rs.Results) != 1 {
					return true
				}
				if squash(p.text(rs.Results[0])) == "err" {
					return true
				}
				n++
				if c, ok := rs.Results[0].(*ast.CallExpr); ok && p.calleeOf(c) == "(*Conn).skipFields" && len(c.Args) == 3 && p.text(c.Args[0]) == "fr" && p.text(c.Args[1]) == "b" {
					good++
				}
				return true
			})
			r.check(n >= 6 && n == good, "readHeader turns a response away only after decoding the rest", p.pos(loop.Pos()), fmt.Sprintf("%d rejections: return c.skipFields(fr, b, reason)", n), fmt.Sprintf("%d of %d rejections inside readHeader's loop hand the undecoded rest of the fragment to skipFields", good, n))
			reg := hasStmt(p, body, "c.block.regularSeen=true")
			r.check(reg, "a regular field is recorded on the block", p.pos(loop.Pos()), "c.block.regularSeen = true at the top level of the loop", "a regular field no longer marks the block (not just the frame) as past its pseudo-headers")
		}
	} else {
		r.undecided("readHeader", "?", "no longer resolves")
	}
	// skipHeaderBlock
	if fd := p.decl("(*Conn).skipHeaderBlock"); fd != nil {
		l := fd.Body.List
		shape := hasStmt(p, l, "b:=c.block.open(fr)") && hasStmt(p, l, "err:=c.skipFields(fr,b,nil)")
		rec := false
		for _, s := range l {
			if ifs, ok := s.(*ast.IfStmt); ok && squash(p.text(ifs.Cond)) == "err!=nil" && len(ifs.Body.List) == 1 && squash(p.text(ifs.Body.List[0])) == "c.setLastErr(err)" {
				rec = true
			}
		}
		last := retResults(l[len(l)-1])
		r.check(shape && rec && len(last) == 1 && squash(p.text(last[0])) == "err!=nil", "skipHeaderBlock continues the connection's block", p.pos(fd.Pos()), "open(fr); skipFields(fr, b, nil); error -> recorded, read loop stops", "a header block nobody waits for is no longer decoded from the connection's block state (carried bytes, position) to the end of the fragment, a decoding error stopping the read loop")
	}
	// endsStream
	if fd := p.decl("(*Conn).endsStream"); fd != nil {
		okE := false
		if len(fd.Body.List) == 2 {
			if sw, ok := fd.Body.List[0].(*ast.SwitchStmt); ok && sw.Tag != nil && squash(p.text(sw.Tag)) == "fr.Type()" && len(sw.Body.List) == 2 {
				data, hdr := false, false
				for _, s := range sw.Body.List {
					cc := s.(*ast.CaseClause)
					ks := []string{}
					for _, e := range cc.List {
						ks = append(ks, p.text(e))
					}
					if len(cc.Body) != 1 {
						continue
					}
					res := retResults(cc.Body[0])
					if len(res) != 1 {
						continue
					}
					switch strings.Join(ks, ",") {
					case "FrameData":
						data = squash(p.text(res[0])) == "fr.Flags().Has(FlagEndStream)"
					case "FrameHeaders,FrameContinuation", "FrameContinuation,FrameHeaders":
						hdr = p.isConjunctionOf(res[0], "c.block.endStream", "fr.Flags().Has(FlagEndHeaders)")
					}
				}
				last := retResults(fd.Body.List[1])
				okE = data && hdr && len(last) == 1 && p.text(last[0]) == "false"
			}
		}
		r.check(okE, "a response ends with DATA+END_STREAM or with the block its HEADERS ended the stream on", p.pos(fd.Pos()), "DATA: END_STREAM; HEADERS/CONTINUATION: block.endStream && END_HEADERS; else false", "endsStream is no longer exactly: END_STREAM on DATA, or END_HEADERS on the last frame of a block whose HEADERS frame carried END_STREAM; on every other frame kind the bit is undefined (RFC 7540 s4.1)")
	} else {
		r.bad("a response ends with DATA+END_STREAM or with the block its HEADERS ended the stream on", "?", "(*Conn).endsStream no longer resolves")
	}
	// interim (1xx) blocks: decoded and checked like any other, their fields left out of the response
	if fd := p.decl("(*Conn).readHeader"); fd != nil {
		mark, valid := token.NoPos, token.NoPos
		pmr := p.pmFor(fd)
		nStore, guarded, clChecked := 0, true, false
		ast.Inspect(fd.Body, func(n ast.Node) bool {
			switch x := n.(type) {
			case *ast.AssignStmt:
				if squash(p.text(x)) == "c.block.interim=n<200" {
					mark = x.Pos()
				}
			case *ast.IfStmt:
				if squash(p.text(x.Cond)) == "isConnectionSpecific(hf.KeyBytes())" {
					valid = x.Pos()
				}
				// the content-length of any block, interim or not, is parsed and a bad one fails the request
				if squash(p.text(x.Cond)) == "bytes.Equal(hf.KeyBytes(),StringContentLength)" {
					under := false
					for _, g := range p.enclosingGuards(pmr, x) {
						if strings.Contains(squash(p.text(g.Cond)), "c.block.interim") {
							under = true
						}
					}
					t := stmtTexts(p, x.Body.List)
					if !under && len(t) >= 2 && t[0] == "n,err:=parseUint(hf.ValueBytes())" && strings.HasPrefix(t[1], "iferr!=nil{returnc.skipFields(") {
						clChecked = true
					}
				}
			case *ast.CallExpr:
				// every store of a field into the response is under "not interim"
				if squash(p.text(x.Fun)) == "res.Header.AddBytesKV" || squash(p.text(x.Fun)) == "res.Header.SetContentLength" {
					nStore++
					ok := false
					for _, g := range p.knownFacts(pmr, x) {
						if !g.Val && squash(p.text(g.Cond)) == "c.block.interim" {
							ok = true
						}
					}
					if !ok || (valid.IsValid() && x.Pos() < valid) {
						guarded = false
					}
				}
			}
			return true
		})
		okInterim := nStore >= 2 && guarded && clChecked
		open := false
		if od := p.decl("(*headerBlock).open"); od != nil {
			ast.Inspect(od.Body, func(n ast.Node) bool {
				if as, ok := n.(*ast.AssignStmt); ok && squash(p.text(as)) == "hb.interim=false" {
					open = true
				}
				return true
			})
		}
		r.check(mark.IsValid() && valid.IsValid() && okInterim && open, "the fields of an interim block are decoded, checked and left out", p.pos(fd.Pos()), "interim = status < 200 (cleared when a block opens); every field is checked, content-length parsed; each store into the response is under !interim", "readHeader adds the fields of a 1xx block to the caller's Response again (or stops checking them): a 103 Early Hints before the 200 leaves its link fields on the final response")
	}
	// dispatch tail
	if fd := p.decl("(*Conn).dispatch"); fd != nil {
		finIdx := -1
		okFin := false
		for i, s := range fd.Body.List {
			ifs, ok := s.(*ast.IfStmt)
			if !ok || squash(p.text(ifs.Cond)) != "err==nil" || ifs.Else != nil || len(ifs.Body.List) != 2 {
				continue
			}
			finIdx = i
			in, ok1 := ifs.Body.List[0].(*ast.IfStmt)
			res := retResults(ifs.Body.List[1])
			if ok1 && squash(p.text(in.Cond)) == "c.endsStream(fr)" && in.Else == nil && len(in.Body.List) == 1 && squash(p.text(in.Body.List[0])) == "c.finish(r,fr.Stream(),nil)" && len(res) == 1 && p.text(res[0]) == "false" {
				okFin = true
			}
		}
		// what follows handles the error
		var tail []ast.Stmt
		if finIdx >= 0 {
			tail = fd.Body.List[finIdx+1:]
		}
		t := stmtTexts(p, tail)
		at := func(want string) int {
			for i, x := range t {
				if x == want {
					return i
				}
			}
			return -1
		}
		finErr := at("c.finish(r,fr.Stream(),err)")
		last := -1
		if n := len(tail); n > 0 {
			if res := retResults(tail[n-1]); len(res) == 1 && p.text(res[0]) == "stop" {
				last = n - 1
			}
		}
		r.check(okFin && finErr >= 0 && finErr < last, "dispatch finishes a request on the frame that ends its stream, or on an error", p.pos(fd.Pos()), "if err == nil { if endsStream(fr) { finish(nil) }; return false }; ...; finish(err); return stop", "dispatch no longer resolves the request exactly when the frame ends the stream (success) or failed (with the error)")
		// stop := GoAway-class (recorded with setLastErr) || FlowControlError; RST back unless stopping or the frame was RST_STREAM, before the slot goes back
		// a flow-control error stops the loop unless it is the code of a RST_STREAM the server sent
		def, rec, flow, rst := -1, -1, at("stop=stop||(fr.Type()!=FrameResetStream&&errors.Is(err,FlowControlError))"), -1
		for i, s := range tail {
			switch x := s.(type) {
			case *ast.AssignStmt:
				if x.Tok == token.DEFINE && len(x.Lhs) == 1 && p.text(x.Lhs[0]) == "stop" && p.isConjunctionOf(x.Rhs[0], "errors.As(err,&connErr)", "connErr.frameType==FrameGoAway") {
					def = i
				}
			case *ast.IfStmt:
				c := squash(p.text(x.Cond))
				if c == "stop" && x.Else == nil && len(x.Body.List) == 1 && squash(p.text(x.Body.List[0])) == "c.setLastErr(err)" {
					rec = i
				}
				if p.isConjunctionOf(x.Cond, "!stop", "fr.Type()!=FrameResetStream") && x.Else == nil && len(x.Body.List) == 1 {
					if es, ok := x.Body.List[0].(*ast.ExprStmt); ok {
						if cl, ok := es.X.(*ast.CallExpr); ok && p.calleeOf(cl) == "(*Conn).cancelStream" && len(cl.Args) == 2 && squash(p.text(cl.Args[0])) == "fr.Stream()" {
							if v, ok := p.intConst(cl.Args[1]); ok && v == 1 {
								rst = i
							}
						}
					}
				}
			}
		}
		r.check(def >= 0 && rec > def && last > rec, "a connection-class error stops the read loop", p.pos(fd.Pos()), "stop := errors.As(err, &connErr) && frameType == GOAWAY; if stop { setLastErr }; return stop", "a header block that does not decode no longer ends the connection: the client carries on with a dynamic table the server does not share")
		r.check(flow > def && def >= 0 && flow < last, "a flow-control error stops the read loop", p.pos(fd.Pos()), "stop = stop || (fr.Type() != FrameResetStream && errors.Is(err, FlowControlError)) before return stop", "dispatch no longer stops the read loop on a flow-control error this end found, and only then: the same code on a RST_STREAM the server sent ends that stream, not every request on the connection")
		r.check(rst > flow && flow >= 0 && rst < finErr, "a response turned away is reset", p.pos(fd.Pos()), "not stopping and not an RST_STREAM from the server -> RST_STREAM(PROTOCOL_ERROR), queued before finish gives the slot back", "a response rejected as malformed is no longer answered with RST_STREAM(PROTOCOL_ERROR) on its stream before the stream's slot is given back (and only then: not for a connection error, not in answer to the server's own RST_STREAM): the server keeps the stream, and goes on sending on it")
	}
	_ = token.NoPos
}

func init() {
	register(&Rule{
		Name: "dial-bounded", Props: []string{"C12", "C17"}, Engine: "AST", Floor: 3,
		Doc: "a connection the client dials carries a deadline of a positive constant from before the TLS handshake until the HTTP/2 handshake has succeeded, and loses it then: a server that accepts and says nothing cannot hold the dialing goroutine (and the Client lock its caller holds)",
		Run: func(p *Prog, r *Out) {
			td, dd := p.decl("(*Dialer).tryDial"), p.decl("(*Dialer).Dial")
			if td == nil || dd == nil {
				r.undecided("Dial", "?", "(*Dialer).tryDial / Dial no longer resolve")
				return
			}
			r.fn("(*Dialer).tryDial", "(*Dialer).Dial")
			setAt, tlsAt := token.NoPos, token.NoPos
			ast.Inspect(td.Body, func(n ast.Node) bool {
				switch x := n.(type) {
				case *ast.AssignStmt:
					if squash(p.text(x)) == "_=c.SetDeadline(time.Now().Add(handshakeTimeout))" {
						setAt = x.Pos()
					}
				case *ast.CallExpr:
					if strings.HasSuffix(p.calleeOf(x), ".Handshake") && strings.Contains(p.text(x.Fun), "tlsConn") && !tlsAt.IsValid() {
						tlsAt = x.Pos()
					}
				}
				return true
			})
			r.check(setAt.IsValid() && tlsAt.IsValid() && setAt < tlsAt, "a new connection carries a deadline until its handshake is done", p.pos(td.Pos()), "c.SetDeadline(now + handshakeTimeout) before the TLS handshake", "the connection no longer gets a deadline before the TLS handshake: a server that accepts and then says nothing holds the dial for ever")
			g, ok := p.pkgConst("handshakeTimeout")
			r.check(ok && g > 0 && g <= int64(120*1e9), "the handshake deadline is a positive constant", p.pos(td.Pos()), "0 < handshakeTimeout <= 2 minutes", "handshakeTimeout is no longer a positive constant of at most two minutes")
			// Dial clears it only after a successful handshake
			hsAt, clrOK := token.NoPos, false
			for _, s := range dd.Body.List {
				if squash(p.text(s)) == "err=nc.Handshake()" {
					hsAt = s.Pos()
				}
				if ifs, ok := s.(*ast.IfStmt); ok && squash(p.text(ifs.Cond)) == "err==nil" && hsAt.IsValid() && ifs.Pos() > hsAt && len(ifs.Body.List) == 1 && squash(p.text(ifs.Body.List[0])) == "err=c.SetDeadline(time.Time{})" {
					clrOK = true
				}
			}
			r.check(clrOK, "the deadline comes off after the handshake and not before", p.pos(dd.Pos()), "err = nc.Handshake(); if err == nil { err = c.SetDeadline(time.Time{}) }", "Dial no longer removes the handshake deadline exactly once the handshake has succeeded: either the connection dies handshakeTimeout after it was dialed, or the wait for SETTINGS is unbounded again")
		},
	})
}

// blockFieldsSetByCaller: the fields of the client's header block state that
// readStreamOwned stores before it calls readStream (and so before open runs).
func (p *Prog) blockFieldsSetByCaller() map[string]bool {
	if v, ok := p.memo["blockFieldsSetByCaller"]; ok {
		return v.(map[string]bool)
	}
	out := map[string]bool{}
	p.memo["blockFieldsSetByCaller"] = out
	fd := p.decl("(*Conn).readStreamOwned")
	if fd == nil {
		return out
	}
	call := token.NoPos
	inspectCalls(fd.Body, func(c *ast.CallExpr) {
		if p.calleeOf(c) == "(*Conn).readStream" && !call.IsValid() {
			call = c.Pos()
		}
	})
	ast.Inspect(fd.Body, func(n ast.Node) bool {
		as, ok := n.(*ast.AssignStmt)
		if !ok || (call.IsValid() && as.Pos() > call) {
			return true
		}
		for _, l := range as.Lhs {
			t := squash(p.text(l))
			if strings.HasPrefix(t, "c.block.") {
				out[strings.TrimPrefix(t, "c.block.")] = true
			}
		}
		return true
	})
	return out
}

// isNoFieldTest: the condition under which a decode loop stops without counting
// a field is the decoder's own word that its last step produced none.
func isNoFieldTest(p *Prog, cond ast.Expr) bool {
	t := squash(p.text(cond))
	return t == "!sc.dec.fieldDecoded" || t == "!c.dec.fieldDecoded"
}
