package main

import (
	"fmt"
	"go/ast"
	"go/constant"
	"go/token"
	"strings"
)

func init() {
	register(&Rule{
		Name: "hpack-static-table", Props: []string{"C03", "C04", "C01", "C02"}, Engine: "CODEC", Floor: 63,
		Doc: "the staticTable literal has the 61 entries of RFC 7541 Appendix A in order, maxIndex is 62, and a table entry is sized name+value+32 (RFC 7541 s4.1)",
		Run: ruleStaticTable,
	})
	register(&Rule{
		Name: "dec-dispatch-table", Props: []string{"C03", "C16", "C01", "C02"}, Engine: "CODEC", Floor: 256,
		Doc: "for every first octet 0x00..0xff, the first matching representation clause of the field decoder is the representation RFC 7541 s6 assigns to that octet: same integer prefix width, never-indexed marking only for 0001xxxx, dynamic-table insertion only for 01xxxxxx, size update only for 001xxxxx",
		Run: ruleDecDispatch,
	})
	register(&Rule{
		Name: "dec-cursor-grammar", Props: []string{"C03", "C16", "C01", "C02"}, Engine: "PATH", Floor: 4,
		Doc: "on every path through a representation clause the input cursor advances exactly as the RFC 7541 s6 grammar of that representation: indexed = int(7); literal = int(N) string | skip(1) string string; size update = int(5). A cursor advance conditioned on the content of the next octet is content-dependent framing",
		Run: ruleDecCursor,
	})
	register(&Rule{
		Name: "dec-int-overflow", Props: []string{"C03", "C16", "C01", "C02"}, Engine: "CODEC", Floor: 4,
		Doc: "the prefix-integer decoder's overflow guard admits no continuation shift at which a 7-bit group no longer fits in 64 bits, and the single-octet case is exactly value < 2^N-1 (RFC 7541 s5.1)",
		Run: ruleDecIntOverflow,
	})
	register(&Rule{
		Name: "dec-size-update-guard", Props: []string{"C03", "C01", "C02"}, Engine: "DOM", Floor: 3,
		Doc: "a dynamic table size update is applied only after rejecting (a) an update that is not at the start of a header block and (b) a size above the limit taken from SETTINGS; the new size is then enforced by evicting (RFC 7541 s4.2, s6.3)",
		Run: ruleDecSizeUpdate,
	})
	register(&Rule{
		Name: "hpack-table-index", Props: []string{"C03", "C04", "C01", "C02"}, Engine: "LIN", Floor: 4,
		Doc: "dynamic table addressing: the decoder maps wire index n>=62 to dynamic[len-(n-62)-1] with a bounds check and static index n to staticTable[n-1]; the encoder's search returns 62+len-i-1 for dynamic[i] and i+1 for staticTable[i]; eviction removes from the oldest end while size > max (RFC 7541 s2.3.3, s4.4)",
		Run: ruleTableIndex,
	})
	register(&Rule{
		Name: "enc-paths", Props: []string{"C04", "C01", "C02"}, Engine: "PATH", Floor: 6,
		Doc: "on every path of the field encoder: the representation octet and the prefix width handed to the integer encoder are a pair of RFC 7541 s6 (0x80/7, 0x40/6, 0x00/4, 0x10/4, 0x20/5); the encoder inserts into its table iff it emitted 0x40; a sensitive field is emitted as 0x10 and never inserted; an indexed field carries no value string and every literal carries exactly one",
		Run: ruleEncPaths,
	})
	register(&Rule{
		Name: "enc-int-boundary", Props: []string{"C04", "C01", "C02"}, Engine: "CODEC", Floor: 4,
		Doc: "the integer encoder emits a single octet exactly when value < 2^N-1, the same boundary at which the decoder stops (RFC 7541 s5.1); at value == 2^N-1 a zero continuation octet is required",
		Run: ruleEncIntBoundary,
	})
	register(&Rule{
		Name: "enc-no-output-peek", Props: []string{"C04"}, Engine: "AST", Floor: 3,
		Doc: "no branch of the encoder depends on the content of octets already emitted (only on their count): framing must not depend on what the previous string happened to end with",
		Run: ruleEncNoPeek,
	})
	register(&Rule{
		Name: "enc-size-update-first", Props: []string{"C04", "C18"}, Engine: "DOM", Floor: 4,
		Doc: "a pending table-size change is announced (0x20, 5-bit prefix, current maximum) before anything else is appended to the block and the flag is cleared; every change of the maximum through SetMaxTableSize sets the flag and evicts (RFC 7541 s4.2)",
		Run: ruleEncSizeUpdate,
	})
	register(&Rule{
		Name: "huffman-tables", Props: []string{"C15", "C03", "C04"}, Engine: "CODEC", Floor: 512,
		Doc: "the 256 huffmanCodes and huffmanCodeLen literals equal RFC 7541 Appendix B",
		Run: ruleHuffmanTables,
	})
	register(&Rule{
		Name: "huffman-prefix-code", Props: []string{"C15"}, Engine: "CODEC", Floor: 4,
		Doc: "computed from the repository's own literals: lengths lie in 5..30, the Kraft sum including the 30-bit EOS is exactly 1 (complete prefix code), codes are canonical (increasing within and across lengths), and EOS is the all-ones 30-bit word",
		Run: ruleHuffmanPrefix,
	})
	register(&Rule{
		Name: "huffman-codec-structure", Props: []string{"C15"}, Engine: "AST", Floor: 6,
		Doc: "structural necessary conditions of the bit loops: the encoder pads the last octet with 1-bits ((1<<n)-1 with n = 8-pending); the decoder rejects more than 7 leftover bits, rejects padding that is not all ones, and rejects a missing table node; the decode table is filled from the same two literals with range 1<<(8-len)",
		Run: ruleHuffmanStructure,
	})
}

// ---------------------------------------------------------------- tables

func (p *Prog) findVarInit(name string) (ast.Expr, *ast.Ident) {
	for _, f := range p.Files {
		for _, d := range f.Decls {
			gd, ok := d.(*ast.GenDecl)
			if !ok {
				continue
			}
			for _, s := range gd.Specs {
				vs, ok := s.(*ast.ValueSpec)
				if !ok {
					continue
				}
				for i, id := range vs.Names {
					if id.Name == name && i < len(vs.Values) {
						return vs.Values[i], id
					}
				}
			}
		}
	}
	return nil, nil
}

func (p *Prog) stringOfBytesConv(e ast.Expr) (string, bool) {
	// []byte("literal")
	c, ok := ast.Unparen(e).(*ast.CallExpr)
	if !ok || len(c.Args) != 1 {
		return "", false
	}
	v := p.constOf(c.Args[0])
	if v == nil || v.Kind() != constant.String {
		return "", false
	}
	return constant.StringVal(v), true
}

func ruleStaticTable(p *Prog, r *Out) {
	init, id := p.findVarInit("staticTable")
	cl, ok := init.(*ast.CompositeLit)
	if !ok {
		r.undecided("staticTable", "?", "staticTable literal no longer resolves")
		return
	}
	if len(cl.Elts) != 61 {
		r.bad("staticTable length", p.pos(id.Pos()), fmt.Sprintf("staticTable has %d entries, RFC 7541 Appendix A has 61", len(cl.Elts)))
	} else {
		r.ok("staticTable length", p.pos(id.Pos()), "61 entries")
	}
	for i, e := range cl.Elts {
		if i >= 61 {
			break
		}
		el, ok := e.(*ast.CompositeLit)
		k, v := "", ""
		if ok {
			for _, kv := range el.Elts {
				if kve, ok := kv.(*ast.KeyValueExpr); ok {
					name := p.text(kve.Key)
					s, _ := p.stringOfBytesConv(kve.Value)
					if name == "key" {
						k = s
					} else if name == "value" {
						v = s
					}
				}
			}
		}
		w := rfcStaticTable[i]
		r.check(k == w[0] && v == w[1], fmt.Sprintf("staticTable[%d]", i+1), p.pos(e.Pos()), fmt.Sprintf("%q=%q", k, v),
			fmt.Sprintf("static table entry %d is (%q, %q); RFC 7541 Appendix A says (%q, %q)", i+1, k, v, w[0], w[1]))
	}
	mi, ok := p.pkgConst("maxIndex")
	r.check(ok && mi == 62, "maxIndex", "?", "maxIndex = 62", fmt.Sprintf("maxIndex = %d; the first dynamic index is 62 (RFC 7541 s2.3.3)", mi))
	if fd := p.decl("(*HeaderField).Size"); fd != nil {
		r.fn("(*HeaderField).Size")
		var l Lin
		got := false
		ast.Inspect(fd, func(n ast.Node) bool {
			if rs, ok := n.(*ast.ReturnStmt); ok && len(rs.Results) == 1 {
				l = p.linOf(rs.Results[0], nil)
				got = true
			}
			return true
		})
		want := Lin{T: map[string]int64{"len(hf.key)": 1, "len(hf.value)": 1}, C: 32}
		r.check(got && l.eq(want), "entry size", p.pos(fd.Pos()), "len(name)+len(value)+32", fmt.Sprintf("HeaderField.Size returns %s; RFC 7541 s4.1 defines an entry's size as len(name)+len(value)+32", l))
	} else {
		r.undecided("entry size", "?", "(*HeaderField).Size no longer resolves")
	}
}

// ---------------------------------------------------------------- decoder dispatch

type decClause struct {
	cc      *ast.CaseClause
	mask    int64
	val     int64
	ok      bool
	bits    []int64 // prefix widths passed to readInt with the cursor in this clause
	sens    bool    // sets hf.sensible = true
	adds    bool    // calls addDynamic
	sizeUpd bool    // stores maxTableSize
	ft      bool    // ends in fallthrough
}

func (p *Prog) decoderClauses(r *Out) ([]*decClause, *ast.FuncDecl) {
	fd := p.decl("(*HPACK).nextField")
	if fd == nil {
		r.undecided("nextField", "?", "(*HPACK).nextField no longer resolves")
		return nil, nil
	}
	r.fn("(*HPACK).nextField")
	var sw *ast.SwitchStmt
	ast.Inspect(fd.Body, func(n ast.Node) bool {
		if s, ok := n.(*ast.SwitchStmt); ok && sw == nil && s.Tag == nil {
			sw = s
		}
		return true
	})
	if sw == nil {
		r.undecided("nextField", p.pos(fd.Pos()), "no tagless switch over the first octet found in nextField")
		return nil, fd
	}
	var out []*decClause
	for _, c := range sw.Body.List {
		cc := c.(*ast.CaseClause)
		dc := &decClause{cc: cc}
		if len(cc.List) == 1 {
			if b, ok := ast.Unparen(cc.List[0]).(*ast.BinaryExpr); ok && b.Op == token.EQL {
				if and, ok := ast.Unparen(b.X).(*ast.BinaryExpr); ok && and.Op == token.AND {
					m, ok1 := p.intConst(and.Y)
					v, ok2 := p.intConst(b.Y)
					if ok1 && ok2 {
						dc.mask, dc.val, dc.ok = m, v, true
					}
				}
			}
		}
		for _, s := range cc.Body {
			ast.Inspect(s, func(n ast.Node) bool {
				switch x := n.(type) {
				case *ast.CallExpr:
					switch p.calleeOf(x) {
					case "readInt":
						if len(x.Args) == 2 {
							if v, ok := p.intConst(x.Args[0]); ok {
								dc.bits = append(dc.bits, v)
							}
						}
					case "(*HPACK).addDynamic":
						dc.adds = true
					}
				case *ast.AssignStmt:
					for i, l := range x.Lhs {
						if p.isFieldSel(l, "HeaderField", "sensible") && i < len(x.Rhs) {
							if id, ok := x.Rhs[i].(*ast.Ident); ok && id.Name == "true" {
								dc.sens = true
							}
						}
						if p.isFieldSel(l, "HPACK", "maxTableSize") {
							dc.sizeUpd = true
						}
					}
				case *ast.BranchStmt:
					if x.Tok == token.FALLTHROUGH {
						dc.ft = true
					}
				}
				return true
			})
		}
		out = append(out, dc)
	}
	return out, fd
}

func ruleDecDispatch(p *Prog, r *Out) {
	cls, fd := p.decoderClauses(r)
	if cls == nil {
		return
	}
	for i, c := range cls {
		if !c.ok && c.cc.List != nil {
			r.undecided(fmt.Sprintf("clause %d", i), p.pos(c.cc.Pos()), "case expression is not of the form c&MASK == VALUE")
			return
		}
	}
	type repr struct {
		name    string
		bits    int64
		sens    bool
		adds    bool
		sizeUpd bool
	}
	rfc := func(b int) repr {
		switch {
		case b&0x80 != 0:
			return repr{"indexed", 7, false, false, false}
		case b&0x40 != 0:
			return repr{"literal with incremental indexing", 6, false, true, false}
		case b&0x20 != 0:
			return repr{"dynamic table size update", 5, false, false, true}
		case b&0x10 != 0:
			return repr{"literal never indexed", 4, true, false, false}
		default:
			return repr{"literal without indexing", 4, false, false, false}
		}
	}
	for b := 0; b < 256; b++ {
		want := rfc(b)
		key := fmt.Sprintf("octet %#02x", b)
		var hit *decClause
		hi := -1
		for i, c := range cls {
			if c.cc.List == nil || (int64(b)&c.mask) == c.val {
				hit, hi = c, i
				break
			}
		}
		if hit == nil {
			r.bad(key, p.pos(fd.Pos()), fmt.Sprintf("first octet %#02x (%s) matches no clause of the decoder: the field is silently skipped", b, want.name))
			continue
		}
		// effective attributes: follow fallthrough
		got := repr{sens: hit.sens, adds: hit.adds, sizeUpd: hit.sizeUpd}
		bits := hit.bits
		for j := hi; cls[j].ft && j+1 < len(cls); j++ {
			n := cls[j+1]
			got.sens = got.sens || n.sens
			got.adds = got.adds || n.adds
			got.sizeUpd = got.sizeUpd || n.sizeUpd
			bits = append(bits, n.bits...)
		}
		okBits := len(bits) > 0
		for _, w := range bits {
			if w != want.bits {
				okBits = false
			}
		}
		good := okBits && got.sens == want.sens && got.adds == want.adds && got.sizeUpd == want.sizeUpd
		r.check(good, key, p.pos(hit.cc.Pos()), want.name,
			fmt.Sprintf("first octet %#02x is a %s in RFC 7541 s6 (prefix %d, never-indexed=%v, inserted=%v, size-update=%v) but the decoder's first matching clause reads prefix %v, never-indexed=%v, inserted=%v, size-update=%v",
				b, want.name, want.bits, want.sens, want.adds, want.sizeUpd, bits, got.sens, got.adds, got.sizeUpd))
	}
}

// ---------------------------------------------------------------- cursor grammar

func ruleDecCursor(p *Prog, r *Out) {
	cls, fd := p.decoderClauses(r)
	if cls == nil {
		return
	}
	// the cursor is the []byte parameter of nextField
	cursor := ""
	for _, f := range fd.Type.Params.List {
		if at, ok := f.Type.(*ast.ArrayType); ok && at.Len == nil {
			if len(f.Names) > 0 {
				cursor = f.Names[len(f.Names)-1].Name
			}
		}
	}
	if cursor == "" {
		r.undecided("cursor", p.pos(fd.Pos()), "no []byte parameter in nextField")
		return
	}
	for ci, c := range cls {
		body := c.cc.Body
		// fallthrough: grammar is judged on the concatenation
		if c.ft && ci+1 < len(cls) {
			var b2 []ast.Stmt
			for _, s := range body {
				if bs, ok := s.(*ast.BranchStmt); ok && bs.Tok == token.FALLTHROUGH {
					continue
				}
				b2 = append(b2, s)
			}
			body = append(b2, cls[ci+1].cc.Body...)
		}
		w := &pathWalker{p: p, limit: 20000}
		w.onNode = func(st *pathState, n ast.Node) {
			ast.Inspect(n, func(m ast.Node) bool {
				switch x := m.(type) {
				case *ast.FuncLit:
					return false
				case *ast.CallExpr:
					switch p.calleeOf(x) {
					case "readInt":
						if len(x.Args) == 2 && p.text(x.Args[1]) == cursor {
							v, _ := p.intConst(x.Args[0])
							st.Events = append(st.Events, pathEvent{"int", x, v})
						}
					case "readString":
						if len(x.Args) == 2 && p.text(x.Args[1]) == cursor {
							st.Events = append(st.Events, pathEvent{"str", x, 0})
						}
					}
				case *ast.AssignStmt:
					// cursor = cursor[k:]
					for i, l := range x.Lhs {
						if id, ok := l.(*ast.Ident); ok && id.Name == cursor && i < len(x.Rhs) && len(x.Lhs) == len(x.Rhs) {
							if se, ok := ast.Unparen(x.Rhs[i]).(*ast.SliceExpr); ok && p.text(se.X) == cursor {
								k := int64(-1)
								if se.Low != nil {
									if v, ok := p.intConst(se.Low); ok {
										k = v
									}
								}
								st.Events = append(st.Events, pathEvent{"skip", x, k})
							}
						}
					}
				}
				return true
			})
		}
		paths := w.stmts(body, []*pathState{{Dec: map[string]bool{}, Consts: map[string]int64{}}})
		if w.over {
			r.undecided(fmt.Sprintf("clause %d", ci), p.pos(c.cc.Pos()), "too many paths")
			continue
		}
		// allowed sequences for this clause by its mask/value
		var allowed [][]string
		switch {
		case c.mask == 0x80 && c.val == 0x80:
			allowed = [][]string{{"int7"}}
		case c.mask == 0x40 && c.val == 0x40:
			allowed = [][]string{{"int6", "str"}, {"skip1", "str", "str"}}
		case c.mask == 0xf0 && (c.val == 0x10 || c.val == 0x00):
			allowed = [][]string{{"int4", "str"}, {"skip1", "str", "str"}}
		case c.mask == 0x20 && c.val == 0x20, c.mask == 0xe0 && c.val == 0x20:
			allowed = [][]string{{"int5"}}
		default:
			r.undecided(fmt.Sprintf("clause %d", ci), p.pos(c.cc.Pos()), fmt.Sprintf("clause mask %#x value %#x is not one of the five RFC patterns; grammar unknown", c.mask, c.val))
			continue
		}
		bad := map[string]string{}
		seqs := map[string]bool{}
		for _, st := range paths {
			var seq []string
			for _, e := range st.Events {
				switch e.Kind {
				case "int":
					seq = append(seq, fmt.Sprintf("int%d", e.Arg))
				case "str":
					seq = append(seq, "str")
				case "skip":
					seq = append(seq, fmt.Sprintf("skip%d", e.Arg))
				}
			}
			s := strings.Join(seq, " ")
			seqs[s] = true
			isPrefix := false
			for _, a := range allowed {
				if len(seq) <= len(a) {
					m := true
					for i := range seq {
						if seq[i] != a[i] {
							m = false
						}
					}
					// a path that stops early must stop by returning (error) or
					// because the clause guards the rest with err == nil
					if m {
						isPrefix = true
					}
				}
			}
			if !isPrefix {
				// name the offending advance: first event past the longest allowed prefix
				pos := p.pos(c.cc.Pos())
				for i, e := range st.Events {
					okp := false
					for _, a := range allowed {
						if i < len(a) {
							m := true
							for j := 0; j <= i; j++ {
								ev := st.Events[j]
								name := ev.Kind
								if ev.Kind == "int" || ev.Kind == "skip" {
									name = fmt.Sprintf("%s%d", ev.Kind, ev.Arg)
								}
								if name != a[j] {
									m = false
								}
							}
							if m {
								okp = true
							}
						}
					}
					if !okp && (e.Kind == "int" || e.Kind == "str" || e.Kind == "skip") {
						pos = p.pos(e.Node.Pos())
						break
					}
				}
				if _, dup := bad[s]; !dup {
					bad[s] = pos
				}
			}
		}
		cname := fmt.Sprintf("clause c&%#x==%#x", c.mask, c.val)
		if len(bad) == 0 {
			r.ok(cname, p.pos(c.cc.Pos()), fmt.Sprintf("%d paths, sequences %v", len(paths), keysOf(seqs)))
		}
		for s, pos := range bad {
			r.bad(cname+" sequence ["+s+"]", pos, fmt.Sprintf("a path through the decoder clause advances the cursor as [%s], which is not a prefix of any RFC 7541 s6 sequence for this representation %v: the extra advance at %s is taken or not depending on the content of the input", s, allowed, pos),
				"offending advance at "+pos)
		}
	}
	// content-conditioned cursor advances, reported individually
	ast.Inspect(fd.Body, func(n ast.Node) bool {
		ifs, ok := n.(*ast.IfStmt)
		if !ok {
			return true
		}
		readsCursor := false
		ast.Inspect(ifs.Cond, func(m ast.Node) bool {
			if ix, ok := m.(*ast.IndexExpr); ok && p.text(ix.X) == cursor {
				readsCursor = true
			}
			return true
		})
		if !readsCursor {
			return true
		}
		for _, s := range ifs.Body.List {
			if as, ok := s.(*ast.AssignStmt); ok && len(as.Lhs) == 1 {
				if id, ok := as.Lhs[0].(*ast.Ident); ok && id.Name == cursor {
					encl := "?"
					for _, c := range cls {
						if ifs.Pos() >= c.cc.Pos() && ifs.End() <= c.cc.End() {
							encl = fmt.Sprintf("c&%#x==%#x", c.mask, c.val)
						}
					}
					r.bad("conditional skip in "+encl, p.pos(ifs.Pos()), fmt.Sprintf("`%s` advances the cursor depending on the next input octet; RFC 7541 has no optional octet there, so a value whose length octet equals the field's first octet is mis-framed", p.text(ifs.Cond)))
				}
			}
		}
		return true
	})
}

func keysOf(m map[string]bool) []string { return sortedKeys(m) }

// ---------------------------------------------------------------- readInt

func ruleDecIntOverflow(p *Prog, r *Out) {
	fd := p.decl("readInt")
	if fd == nil {
		r.undecided("readInt", "?", "readInt no longer resolves")
		return
	}
	r.fn("readInt")
	// find the loop's overflow guard: a rejecting comparison of a shift derived
	// from the loop index times 7 against a constant
	subst := singleDefs(fd.Body)
	found := false
	ast.Inspect(fd.Body, func(n ast.Node) bool {
		ifs, ok := n.(*ast.IfStmt)
		if !ok {
			return true
		}
		s2 := map[string]ast.Expr{}
		for k, v := range subst {
			s2[k] = v
		}
		if as, ok := ifs.Init.(*ast.AssignStmt); ok && len(as.Lhs) == 1 && len(as.Rhs) == 1 {
			if id, ok := as.Lhs[0].(*ast.Ident); ok {
				s2[id.Name] = as.Rhs[0]
			}
		}
		c, ok := p.canonCmp(ifs.Cond, s2)
		if !ok || c.Op != "le" || len(c.L.T) != 1 {
			return true
		}
		for t, co := range c.L.T {
			if co != -7 {
				continue
			}
			// reject when  -7*t + C <= 0 ; shift = 7*t - 7k... recover the
			// admitted maximum shift: shift(t) = 7*(t) + off where the guard
			// was written over shift = lin(t). Re-derive: find smallest t0 with
			// -7*t0 + C <= 0, admitted t_max = t0-1.
			t0 := (c.L.C + 6) / 7 // ceil(C/7)
			tmax := t0 - 1
			// shift at t: evaluate the guard's left operand linear form
			var shiftLin Lin
			if b, ok := ast.Unparen(ifs.Cond).(*ast.BinaryExpr); ok {
				shiftLin = p.linOf(b.X, s2)
			}
			coef := shiftLin.T[t]
			if coef == 0 {
				continue
			}
			maxShift := coef*tmax + shiftLin.C
			found = true
			r.check(maxShift+7 <= 64, "continuation overflow guard", p.pos(ifs.Pos()), fmt.Sprintf("largest admitted shift %d", maxShift),
				fmt.Sprintf("readInt's guard `%s` still admits a continuation octet at shift %d: its 7 payload bits do not fit in the 64-bit accumulator and are dropped silently, so an over-long integer decodes to a wrong value instead of being rejected (RFC 7541 s5.1: decoding error)", p.text(ifs.Cond), maxShift))
		}
		return true
	})
	if !found {
		r.undecided("continuation overflow guard", p.pos(fd.Pos()), "no guard of the form shift(7*i) >= K found in readInt")
	}
	// single-octet case: returns after one octet iff (b[0] & mask) != mask
	single := false
	ast.Inspect(fd.Body, func(n ast.Node) bool {
		ifs, ok := n.(*ast.IfStmt)
		if !ok {
			return true
		}
		if b, ok := ast.Unparen(ifs.Cond).(*ast.BinaryExpr); ok && b.Op == token.NEQ {
			l, rr := p.text(b.X), p.text(b.Y)
			if (strings.Contains(l, "b0") && strings.Contains(l, "b[0]") && rr == "b0") || (strings.Contains(rr, "b0") && l == "b0") {
				single = true
			}
		}
		return true
	})
	r.check(single, "single-octet boundary", p.pos(fd.Pos()), "prefix != all-ones ends the integer", "readInt no longer ends the integer when the prefix bits are not all ones (RFC 7541 s5.1)")
	// continuation: 7 payload bits per octet, bit 0x80 continues, result = prefix max + sum
	acc, stop, sum := false, false, false
	ast.Inspect(fd.Body, func(n ast.Node) bool {
		switch x := n.(type) {
		case *ast.AssignStmt:
			if x.Tok == token.OR_ASSIGN && len(x.Rhs) == 1 {
				t := strings.ReplaceAll(p.text(x.Rhs[0]), " ", "")
				if t == "uint64(b[i]&127)<<shift" {
					acc = true
				}
			}
		case *ast.IfStmt:
			t := strings.ReplaceAll(p.text(x.Cond), " ", "")
			if t == "b[i]&128!=128" || t == "b[i]&128==0" {
				for _, s := range x.Body.List {
					if rs, ok := s.(*ast.ReturnStmt); ok && len(rs.Results) == 3 {
						stop = true
						if p.linOf(rs.Results[1], nil).eq(Lin{T: map[string]int64{"nn": 1, "b0": 1}}) && p.text(rs.Results[0]) == "b[i+1:]" {
							sum = true
						}
					}
				}
			}
		}
		return true
	})
	r.check(acc, "7 payload bits per continuation octet", p.pos(fd.Pos()), "nn |= (b[i]&127) << shift", "readInt no longer accumulates the low 7 bits of each continuation octet at its shift")
	r.check(stop && sum, "stop at a clear top bit; value = 2^N-1 + sum; cursor after the last octet", p.pos(fd.Pos()), "b[i]&128 == 0 -> return b[i+1:], nn + b0", "readInt no longer stops at the first octet with a clear top bit returning prefix-maximum + accumulated value and the cursor just past that octet")
}

// ---------------------------------------------------------------- size update guard

func isRejectingBody(p *Prog, b *ast.BlockStmt) bool {
	rej := false
	for _, s := range b.List {
		if rs, ok := s.(*ast.ReturnStmt); ok && len(rs.Results) > 0 {
			last := rs.Results[len(rs.Results)-1]
			if id, ok := last.(*ast.Ident); ok && id.Name == "nil" {
				continue
			}
			rej = true
		}
	}
	return rej
}

func ruleDecSizeUpdate(p *Prog, r *Out) {
	cls, _ := p.decoderClauses(r)
	if cls == nil {
		return
	}
	var su *decClause
	for _, c := range cls {
		if c.sizeUpd {
			su = c
		}
	}
	if su == nil {
		r.bad("size update clause", "?", "no decoder clause stores HPACK.maxTableSize: size updates are not applied")
		return
	}
	storeIdx, blockGuard, limitGuard, shrinkAfter := -1, -1, -1, -1
	for i, s := range su.cc.Body {
		switch x := s.(type) {
		case *ast.AssignStmt:
			for _, l := range x.Lhs {
				if p.isFieldSel(l, "HPACK", "maxTableSize") && storeIdx < 0 {
					storeIdx = i
				}
			}
		case *ast.IfStmt:
			if !isRejectingBody(p, x.Body) {
				continue
			}
			txt := p.text(x.Cond)
			if strings.Contains(txt, "blockStart") && strings.Contains(txt, "fieldsProcessed") {
				// must reject when !blockStart OR fieldsProcessed > 0
				if b, ok := ast.Unparen(x.Cond).(*ast.BinaryExpr); ok && b.Op == token.LOR {
					blockGuard = i
				}
			}
			if c, ok := p.canonCmp(x.Cond, nil); ok && c.Op == "le" {
				// n > max  => max - n + 1 <= 0
				if c.L.eq(Lin{T: map[string]int64{"hp.maxTableSizeSettings": 1, "n": -1}, C: 1}) {
					limitGuard = i
				}
			}
		case *ast.ExprStmt:
			if c, ok := x.X.(*ast.CallExpr); ok && p.calleeOf(c) == "(*HPACK).shrink" && storeIdx >= 0 {
				shrinkAfter = i
			}
		}
	}
	pos := p.pos(su.cc.Pos())
	r.check(blockGuard >= 0 && blockGuard < storeIdx, "not-at-block-start rejected", pos, "guard precedes the store",
		"the size-update clause no longer rejects an update that is not the first thing in a header block before applying it (RFC 7541 s4.2: decoding error)")
	r.check(limitGuard >= 0 && limitGuard < storeIdx, "limit rejected", pos, "n > maxTableSizeSettings rejected before the store",
		"the size-update clause no longer rejects a size above the SETTINGS_HEADER_TABLE_SIZE limit before applying it (RFC 7541 s6.3: decoding error)")
	r.check(shrinkAfter > storeIdx && storeIdx >= 0, "eviction after update", pos, "shrink follows the store",
		"the new maximum is stored but entries are not evicted down to it afterwards (RFC 7541 s4.3)")
}

// ---------------------------------------------------------------- table addressing

func ruleTableIndex(p *Prog, r *Out) {
	// decoder: peek
	if fd := p.decl("(*HPACK).peek"); fd != nil {
		r.fn("(*HPACK).peek")
		subst := map[string]ast.Expr{}
		var dynIdx, statIdx ast.Expr
		ast.Inspect(fd.Body, func(n ast.Node) bool {
			as, ok := n.(*ast.AssignStmt)
			if !ok {
				return true
			}
			if as.Tok == token.DEFINE && len(as.Lhs) == 1 && len(as.Rhs) == 1 {
				if id, ok := as.Lhs[0].(*ast.Ident); ok {
					subst[id.Name] = as.Rhs[0]
				}
			}
			// index, table = X, T
			if len(as.Lhs) == 2 && len(as.Rhs) == 2 {
				if p.text(as.Lhs[0]) == "index" {
					if p.text(as.Rhs[1]) == "staticTable" {
						statIdx = as.Rhs[0]
					} else {
						dynIdx = as.Rhs[0]
					}
				}
			}
			return true
		})
		if statIdx != nil && dynIdx != nil {
			ls := p.linOf(statIdx, subst)
			ld := p.linOf(dynIdx, subst)
			mi, _ := p.pkgConst("maxIndex")
			r.check(ls.eq(Lin{T: map[string]int64{"n": 1}, C: -1}), "decoder static index", p.pos(fd.Pos()), "staticTable[n-1]", fmt.Sprintf("static index n maps to staticTable[%s]; RFC 7541 s2.3.3 numbers the static table from 1", ls))
			r.check(ld.eq(Lin{T: map[string]int64{"len(hp.dynamic)": 1, "n": -1}, C: mi - 1}), "decoder dynamic index", p.pos(fd.Pos()), "dynamic[len-(n-62)-1]",
				fmt.Sprintf("dynamic index n maps to dynamic[%s]; with newest-last storage RFC 7541 s2.3.3 requires len-(n-%d)-1", ld, mi))
		} else {
			r.undecided("decoder index mapping", p.pos(fd.Pos()), "peek no longer assigns (index, table) pairs the rule recognises")
		}
		// range check before indexing and split at maxIndex
		rng, split := false, false
		ast.Inspect(fd.Body, func(n ast.Node) bool {
			ifs, ok := n.(*ast.IfStmt)
			if !ok {
				return true
			}
			// rejected exactly when index < 0 or index >= len(table)
			if atoms, pure := pureJunction(ifs.Cond, false); pure && len(atoms) == 2 {
				lo, hi := false, false
				for _, a := range atoms {
					if c, ok := p.canonCmp(a.Cond, nil); ok && !a.Val && c.Op == "le" {
						if c.L.eq(Lin{T: map[string]int64{"index": 1}, C: 1}) {
							lo = true
						}
						if c.L.eq(Lin{T: map[string]int64{"len(table)": 1, "index": -1}}) {
							hi = true
						}
					}
				}
				if res := firstReturn(ifs.Body); lo && hi && len(res) == 1 && p.text(res[0]) == "nil" {
					rng = true
				}
			}
			if c, ok := p.canonCmp(ifs.Cond, nil); ok && c.Op == "le" {
				mi, _ := p.pkgConst("maxIndex")
				if c.L.eq(Lin{T: map[string]int64{"n": 1}, C: 1 - mi}) { // n < maxIndex
					split = true
				}
			}
			return true
		})
		r.check(rng, "decoder index bounds", p.pos(fd.Pos()), "index<0 || index>=len(table) rejected", "peek no longer rejects an index outside the selected table: index 0 or an index past the table must be a decoding error (RFC 7541 s2.3.3)")
		r.check(split, "static/dynamic split", p.pos(fd.Pos()), "n < 62 selects the static table", "peek no longer selects the static table exactly for n < 62")
	} else {
		r.undecided("peek", "?", "(*HPACK).peek no longer resolves")
	}
	// encoder: search
	if fd := p.decl("(*HPACK).search"); fd != nil {
		r.fn("(*HPACK).search")
		var dyn, stat []Lin
		dynUnderFull := true
		ast.Inspect(fd.Body, func(n ast.Node) bool {
			rs, ok := n.(*ast.RangeStmt)
			if !ok {
				return true
			}
			over := p.text(rs.X)
			pm := parentMap(rs.Body)
			ast.Inspect(rs.Body, func(m ast.Node) bool {
				as, ok := m.(*ast.AssignStmt)
				if !ok || len(as.Lhs) != 1 || p.text(as.Lhs[0]) != "n" {
					return true
				}
				l := p.linOf(as.Rhs[0], nil)
				if over == "hp.dynamic" {
					dyn = append(dyn, l)
					// must be nested in an if whose condition is fullMatch
					under := false
					for cur := ast.Node(as); cur != nil; cur = pm[cur] {
						if ifs, ok := cur.(*ast.IfStmt); ok && strings.HasSuffix(p.text(ifs.Cond), "fullMatch") {
							under = true
						}
					}
					if !under {
						dynUnderFull = false
					}
				} else if over == "staticTable" {
					stat = append(stat, l)
				}
				return true
			})
			return true
		})
		mi, _ := p.pkgConst("maxIndex")
		wd := Lin{T: map[string]int64{"len(hp.dynamic)": 1, "i": -1}, C: mi - 1}
		ws := Lin{T: map[string]int64{"i": 1}, C: 1}
		okd := len(dyn) > 0
		for _, l := range dyn {
			if !l.eq(wd) {
				okd = false
			}
		}
		oks := len(stat) > 0
		for _, l := range stat {
			if !l.eq(ws) {
				oks = false
			}
		}
		r.check(okd, "encoder dynamic index", p.pos(fd.Pos()), "62+len-i-1", fmt.Sprintf("search returns %v for dynamic[i]; the decoder resolves index n to dynamic[len-(n-62)-1], so the encoder must emit 62+len-i-1", dyn))
		r.check(oks, "encoder static index", p.pos(fd.Pos()), "i+1", fmt.Sprintf("search returns %v for staticTable[i]; static indices start at 1", stat))
		r.check(dynUnderFull, "dynamic index only on full match", p.pos(fd.Pos()), "n from the dynamic table is assigned only under fullMatch",
			"search can return a dynamic-table index for a name-only match: AppendHeader then emits 0x40 with that index but skips its own table insertion (guard index < maxIndex), and the tables fall out of step")
	} else {
		r.undecided("search", "?", "(*HPACK).search no longer resolves")
	}
	// eviction: shrink drops from index 0 while size > max
	if fd := p.decl("(*HPACK).shrink"); fd != nil {
		r.fn("(*HPACK).shrink")
		cmpOK, dropFront := false, false
		ast.Inspect(fd.Body, func(n ast.Node) bool {
			switch x := n.(type) {
			case *ast.ForStmt:
				if x.Cond != nil {
					var walk func(e ast.Expr)
					walk = func(e ast.Expr) {
						e = ast.Unparen(e)
						if b, ok := e.(*ast.BinaryExpr); ok && b.Op == token.LAND {
							walk(b.X)
							walk(b.Y)
							return
						}
						if c, ok := p.canonCmp(e, nil); ok && c.Op == "le" {
							// tableSize > max => max - tableSize + 1 <= 0
							if c.L.eq(Lin{T: map[string]int64{"hp.maxTableSize": 1, "tableSize": -1}, C: 1}) {
								cmpOK = true
							}
						}
					}
					walk(x.Cond)
				}
			case *ast.CallExpr:
				// append(hp.dynamic[:0], hp.dynamic[n:]...)
				if p.calleeOf(x) == "builtin.append" && len(x.Args) == 2 {
					if p.text(x.Args[0]) == "hp.dynamic[:0]" && p.text(x.Args[1]) == "hp.dynamic[n:]" {
						dropFront = true
					}
				}
			}
			return true
		})
		r.check(cmpOK, "eviction condition", p.pos(fd.Pos()), "evict while size > max", "shrink no longer evicts exactly while the table size exceeds the maximum (RFC 7541 s4.3: until size <= max)")
		r.check(dropFront, "eviction end", p.pos(fd.Pos()), "oldest entries (front) dropped", "shrink no longer drops entries from the oldest end of the table (RFC 7541 s4.3/s4.4 evict from the end of the table = oldest)")
	} else {
		r.undecided("shrink", "?", "(*HPACK).shrink no longer resolves")
	}
	// addDynamic appends at the newest end, a copy, then evicts
	if fd := p.decl("(*HPACK).addDynamic"); fd != nil {
		r.fn("(*HPACK).addDynamic")
		app, shr, cp := -1, -1, -1
		for i, s := range fd.Body.List {
			ast.Inspect(s, func(n ast.Node) bool {
				if c, ok := n.(*ast.CallExpr); ok {
					switch p.calleeOf(c) {
					case "builtin.append":
						if len(c.Args) == 2 && p.text(c.Args[0]) == "hp.dynamic" {
							app = i
						}
					case "(*HPACK).shrink":
						shr = i
					case "(*HeaderField).CopyTo":
						cp = i
					}
				}
				return true
			})
		}
		r.check(cp >= 0 && app > cp && shr > app, "insert order", p.pos(fd.Pos()), "copy, append newest-last, evict", "addDynamic no longer copies the field, appends it at the newest end and then evicts (RFC 7541 s4.4: an entry larger than the table empties it)")
	}
}

// ---------------------------------------------------------------- encoder paths

func ruleEncPaths(p *Prog, r *Out) {
	fd := p.decl("(*HPACK).AppendHeader")
	if fd == nil {
		r.undecided("AppendHeader", "?", "(*HPACK).AppendHeader no longer resolves")
		return
	}
	r.fn("(*HPACK).AppendHeader")
	out := ""
	for _, f := range fd.Type.Params.List {
		if at, ok := f.Type.(*ast.ArrayType); ok && at.Len == nil && len(f.Names) > 0 && out == "" {
			out = f.Names[0].Name
		}
	}
	w := &pathWalker{p: p, limit: 5000}
	record := func(st *pathState, n ast.Node) {
		var visit func(m ast.Node) bool
		visit = func(m ast.Node) bool {
			switch x := m.(type) {
			case *ast.FuncLit:
				return false
			case *ast.AssignStmt:
				// rhs first (evaluation order), then constant tracking
				for _, e := range x.Rhs {
					ast.Inspect(e, visit)
				}
				if len(x.Lhs) == len(x.Rhs) {
					for i, l := range x.Lhs {
						if id, ok := l.(*ast.Ident); ok {
							if v, ok := p.intConst(x.Rhs[i]); ok {
								st.Consts[id.Name] = v
							} else if id.Name != out {
								delete(st.Consts, id.Name)
							}
							// a write invalidates remembered decisions mentioning the name
							for k := range st.Dec {
								if strings.Contains(k, id.Name) && id.Name != out {
									delete(st.Dec, k)
								}
							}
						} else if sel, ok := l.(*ast.SelectorExpr); ok {
							if p.isFieldSel(sel, "HPACK", "pendingSizeUpdate") {
								st.Events = append(st.Events, pathEvent{"clearflag", x, 0})
							}
						}
					}
				}
				return false
			case *ast.CallExpr:
				for _, a := range x.Args {
					ast.Inspect(a, visit)
				}
				switch p.calleeOf(x) {
				case "builtin.append":
					if len(x.Args) >= 2 && x.Ellipsis == token.NoPos {
						for _, a := range x.Args[1:] {
							if v, ok := p.intConst(a); ok {
								st.Events = append(st.Events, pathEvent{"byte", x, v})
							} else {
								st.Events = append(st.Events, pathEvent{"byte?", x, -1})
							}
						}
					}
				case "appendInt":
					bits := int64(-1)
					if len(x.Args) == 3 {
						if v, ok := p.intConst(x.Args[1]); ok {
							bits = v
						} else if id, ok := x.Args[1].(*ast.Ident); ok {
							if v, ok := st.Consts[id.Name]; ok {
								bits = v
							}
						}
					}
					st.Events = append(st.Events, pathEvent{"int", x, bits})
				case "appendString":
					st.Events = append(st.Events, pathEvent{"str", x, 0})
				case "(*HPACK).addDynamic":
					st.Events = append(st.Events, pathEvent{"add", x, 0})
				}
				return false
			}
			return true
		}
		ast.Inspect(n, visit)
	}
	w.onNode = record
	w.evalCond = func(st *pathState, cond ast.Expr) *bool {
		// decide comparisons of a tracked constant local against a constant
		b, ok := ast.Unparen(cond).(*ast.BinaryExpr)
		if !ok {
			return nil
		}
		id, ok := ast.Unparen(b.X).(*ast.Ident)
		if !ok {
			return nil
		}
		lv, ok := st.Consts[id.Name]
		if !ok {
			return nil
		}
		rv, ok := p.intConst(b.Y)
		if !ok {
			return nil
		}
		var v bool
		switch b.Op {
		case token.EQL:
			v = lv == rv
		case token.NEQ:
			v = lv != rv
		case token.LSS:
			v = lv < rv
		case token.GTR:
			v = lv > rv
		default:
			return nil
		}
		return &v
	}
	paths := w.stmts(fd.Body.List, []*pathState{{Dec: map[string]bool{}, Consts: map[string]int64{}}})
	if w.over || len(paths) == 0 {
		r.undecided("paths", p.pos(fd.Pos()), "path enumeration failed")
		return
	}
	rfcBits := map[int64]int64{0x80: 7, 0x40: 6, 0x00: 4, 0x10: 4, 0x20: 5}
	type verdict struct {
		ok       bool
		msg, pos string
	}
	results := map[string]verdict{}
	for _, st := range paths {
		// split optional size-update prefix
		ev := st.Events
		desc := func() string {
			var ds []string
			for k, v := range st.Dec {
				if k == "hp.pendingSizeUpdate" {
					continue
				}
				ds = append(ds, fmt.Sprintf("%s=%v", k, v))
			}
			sortStrings(ds)
			return strings.Join(ds, ", ")
		}()
		var seq []string
		for _, e := range ev {
			switch e.Kind {
			case "byte":
				seq = append(seq, fmt.Sprintf("%#02x", e.Arg))
			case "int":
				seq = append(seq, fmt.Sprintf("int%d", e.Arg))
			default:
				seq = append(seq, e.Kind)
			}
		}
		key := "path{" + desc + "}"
		fail := func(pos token.Pos, f string, a ...interface{}) {
			results[key] = verdict{false, fmt.Sprintf(f, a...) + " [emits: " + strings.Join(seq, " ") + "]", p.pos(pos)}
		}
		if prev, dup := results[key]; dup && !prev.ok {
			continue
		}
		results[key] = verdict{true, strings.Join(seq, " "), p.pos(fd.Pos())}
		i := 0
		// size update prefix: clearflag 0x20 int5
		if len(ev) > 0 && (ev[0].Kind == "clearflag" || (ev[0].Kind == "byte" && ev[0].Arg == 0x20)) {
			if len(ev) < 3 || ev[0].Kind != "clearflag" || ev[1].Kind != "byte" || ev[1].Arg != 0x20 || ev[2].Kind != "int" || ev[2].Arg != 5 {
				fail(fd.Pos(), "with a size change pending the block does not start with [clear flag, 0x20, 5-bit integer]")
				continue
			}
			i = 3
			// the low point of a size that went down and up again comes first
			// (RFC 7541 s4.2): a second update, and no third (enc-size-update
			// says which values they carry)
			if len(ev) >= 5 && ev[3].Kind == "byte" && ev[3].Arg == 0x20 && ev[4].Kind == "int" && ev[4].Arg == 5 {
				i = 5
			}
		}
		rest := ev[i:]
		if len(rest) == 0 || rest[0].Kind != "byte" {
			fail(fd.Pos(), "the field does not start with a constant representation octet")
			continue
		}
		rep := rest[0].Arg
		want, known := rfcBits[rep]
		if !known {
			fail(rest[0].Node.Pos(), "representation octet %#02x is not one of RFC 7541 s6 (0x80, 0x40, 0x00, 0x10)", rep)
			continue
		}
		j := 1
		// the pinned tree pre-appends the zero length octet of a literal name (append(dst, 0, 0))
		if j < len(rest) && rest[j].Kind == "byte" && rest[j].Arg == 0 {
			j++
		}
		adds := 0
		var body []pathEvent
		for _, e := range rest[j:] {
			if e.Kind == "add" {
				adds++
				continue
			}
			body = append(body, e)
		}
		for _, e := range rest[1:j] {
			_ = e
		}
		// any table insertion between rep octet and name counts too
		sens := st.Dec["hf.sensible"]
		if sens && rep != 0x10 {
			fail(rest[0].Node.Pos(), "a sensitive field is emitted with representation %#02x instead of 0x10 (never indexed)", rep)
			continue
		}
		if !sens && rep == 0x10 {
			fail(rest[0].Node.Pos(), "a field not marked sensitive is emitted as never-indexed")
			continue
		}
		if sens && adds > 0 {
			fail(fd.Pos(), "a sensitive field is inserted into the encoder's dynamic table")
			continue
		}
		if len(body) == 0 {
			fail(fd.Pos(), "nothing follows the representation octet")
			continue
		}
		// name
		nameIdx := body[0].Kind == "int"
		if nameIdx {
			if body[0].Arg != want {
				fail(body[0].Node.Pos(), "representation octet %#02x is followed by an index written with a %d-bit prefix; RFC 7541 s6 gives that representation a %d-bit prefix, so the index spills into the pattern bits and a decoder reads a different field", rep, body[0].Arg, want)
				continue
			}
		} else if body[0].Kind != "str" {
			fail(body[0].Node.Pos(), "representation octet is followed by %s, not a name", body[0].Kind)
			continue
		}
		nStr := 0
		for _, e := range body[1:] {
			if e.Kind == "str" {
				nStr++
			} else {
				nStr = -100
			}
		}
		if rep == 0x80 {
			if !nameIdx || len(body) != 1 {
				fail(fd.Pos(), "an indexed field (0x80) must consist of the index alone")
				continue
			}
		} else if nStr != 1 {
			fail(fd.Pos(), "a literal field must carry exactly one value string after its name; this path writes %d", nStr)
			continue
		}
		// table insertion iff 0x40 (index<maxIndex exemption backed by hpack-table-index)
		if rep == 0x40 && adds == 0 {
			if v, ok := st.Dec["index < maxIndex"]; ok && !v {
				// reviewed: unreachable because search yields a dynamic index only on a full match
			} else {
				fail(fd.Pos(), "the field is emitted with incremental indexing (0x40) but not inserted into the encoder's own table: the peer's table gains an entry the encoder does not have")
				continue
			}
		}
		if rep != 0x40 && adds > 0 {
			fail(fd.Pos(), "the encoder inserts the field into its table but emits representation %#02x, which tells the peer not to: the tables fall out of step", rep)
			continue
		}
		if adds > 1 {
			fail(fd.Pos(), "the field is inserted %d times", adds)
			continue
		}
	}
	var ks []string
	for k := range results {
		ks = append(ks, k)
	}
	sortStrings(ks)
	for _, k := range ks {
		v := results[k]
		if v.ok {
			r.ok(k, v.pos, v.msg)
		} else {
			r.bad(k, v.pos, v.msg)
		}
	}
}

func sortStrings(s []string) {
	for i := 1; i < len(s); i++ {
		for j := i; j > 0 && s[j] < s[j-1]; j-- {
			s[j], s[j-1] = s[j-1], s[j]
		}
	}
}

// ---------------------------------------------------------------- appendInt boundary

func ruleEncIntBoundary(p *Prog, r *Out) {
	fd := p.decl("appendInt")
	if fd == nil {
		r.undecided("appendInt", "?", "appendInt no longer resolves")
		return
	}
	r.fn("appendInt")
	subst := singleDefs(fd.Body)
	found := false
	ast.Inspect(fd.Body, func(n ast.Node) bool {
		ifs, ok := n.(*ast.IfStmt)
		if !ok || found {
			return true
		}
		// the single-octet branch: returns without appending a continuation
		returns := false
		for _, s := range ifs.Body.List {
			if _, ok := s.(*ast.ReturnStmt); ok {
				returns = true
			}
		}
		if !returns {
			return true
		}
		c, ok := p.canonCmp(ifs.Cond, subst)
		if !ok || c.Op != "le" {
			return true
		}
		if _, has := c.L.T["index"]; !has {
			return true
		}
		found = true
		// want: index < (1<<bits - 1)  <=> index - (1<<bits) + 2 <= 0
		want := Lin{T: map[string]int64{"index": 1, "1 << bits": -1}, C: 2}
		r.check(c.L.eq(want), "single-octet condition", p.pos(ifs.Pos()), "value < 2^N-1",
			fmt.Sprintf("appendInt writes a single octet when `%s` (canonical %s); RFC 7541 s5.1 and this package's readInt end the integer only when value < 2^N-1, so a value equal to 2^N-1 is emitted with all prefix bits set and no continuation octet, and the decoder consumes the following octet as part of the integer", p.text(ifs.Cond), c))
		return true
	})
	if !found {
		r.undecided("single-octet condition", p.pos(fd.Pos()), "no early-return comparison on the value found in appendInt")
	}
	// the multi-octet path: subtract the prefix maximum, emit 7-bit groups while
	// the remainder is >= 128, then ALWAYS emit the last group (also when it is 0)
	sub, loopOK, groupOK, shiftOK, lastOK, masks := false, false, false, false, false, false
	for _, s := range fd.Body.List {
		switch x := s.(type) {
		case *ast.AssignStmt:
			if len(x.Lhs) == 1 && p.text(x.Lhs[0]) == "index" {
				if (x.Tok == token.SUB_ASSIGN && p.ubKey(x.Rhs[0]) == "b0") || (x.Tok == token.ASSIGN && p.linOf(x.Rhs[0], nil).eq(Lin{T: map[string]int64{"index": 1, "b0": -1}})) {
					sub = true
				}
			}
			if x.Tok == token.AND_ASSIGN {
				masks = true
			}
		case *ast.ForStmt:
			if x.Cond != nil {
				if c, ok := p.canonCmp(x.Cond, nil); ok && c.Op == "le" && c.L.eq(Lin{T: map[string]int64{"index": -1}, C: 128}) {
					loopOK = true
				}
			}
			ast.Inspect(x, func(n ast.Node) bool {
				switch y := n.(type) {
				case *ast.CallExpr:
					if p.calleeOf(y) == "builtin.append" && len(y.Args) == 2 {
						t := strings.ReplaceAll(p.text(y.Args[1]), " ", "")
						if t == "128|byte(index&127)" || t == "byte(index&127)|128" || t == "byte(index&127|128)" || t == "byte(index%128+128)" {
							groupOK = true
						}
					}
				case *ast.AssignStmt:
					if len(y.Lhs) == 1 && p.text(y.Lhs[0]) == "index" && y.Tok == token.SHR_ASSIGN {
						if v, ok := p.intConst(y.Rhs[0]); ok && v == 7 {
							shiftOK = true
						}
					}
				}
				return true
			})
		case *ast.ReturnStmt:
			if len(x.Results) == 1 {
				if c, ok := x.Results[0].(*ast.CallExpr); ok && p.calleeOf(c) == "builtin.append" && len(c.Args) == 2 && p.ubKey(c.Args[1]) == "index" {
					lastOK = true
				}
			}
		}
	}
	r.check(sub, "remainder = value - (2^N-1)", p.pos(fd.Pos()), "index -= b0", "appendInt no longer subtracts the prefix maximum before the continuation octets")
	r.check(loopOK && groupOK && shiftOK, "7-bit groups while remainder >= 128", p.pos(fd.Pos()), "for index >= 128 { append(128|index&127); index >>= 7 }", "appendInt's continuation loop is not `while remainder >= 128: emit 128|(remainder&127); remainder >>= 7` (RFC 7541 s5.1)")
	r.check(lastOK && !masks, "last group always written", p.pos(fd.Pos()), "return append(dst, byte(index))", "appendInt does not unconditionally end the multi-octet form with the last 7-bit group: for a remainder of 0 (value == 2^N-1) no continuation octet is written (or the prefix octet's top bit is cleared), and the decoder consumes the next octet of the block as part of the integer")
}

// ---------------------------------------------------------------- output peek

func ruleEncNoPeek(p *Prog, r *Out) {
	for _, name := range []string{"appendInt", "appendString", "(*HPACK).AppendHeader"} {
		fd := p.decl(name)
		if fd == nil {
			r.undecided(name, "?", "encoder function no longer resolves")
			continue
		}
		r.fn(name)
		out := ""
		for _, f := range fd.Type.Params.List {
			if at, ok := f.Type.(*ast.ArrayType); ok && at.Len == nil && len(f.Names) > 0 && out == "" {
				out = f.Names[0].Name
			}
		}
		nbad := 0
		chk := func(cond ast.Expr) {
			if cond == nil {
				return
			}
			ast.Inspect(cond, func(m ast.Node) bool {
				if ix, ok := m.(*ast.IndexExpr); ok && p.text(ix.X) == out {
					nbad++
					r.bad(name+" branches on "+p.text(ix), p.pos(ix.Pos()), fmt.Sprintf("%s branches on the content of an octet it already emitted (`%s`): whether a fresh length octet is started depends on what the previous string ended with, so a name or value ending in a zero octet makes the next length merge into it", name, p.text(cond)))
				}
				return true
			})
		}
		ast.Inspect(fd.Body, func(n ast.Node) bool {
			switch x := n.(type) {
			case *ast.IfStmt:
				chk(x.Cond)
			case *ast.ForStmt:
				chk(x.Cond)
			case *ast.SwitchStmt:
				chk(x.Tag)
			}
			return true
		})
		if nbad == 0 {
			r.ok(name, p.pos(fd.Pos()), "no condition reads emitted octets")
		}
	}
}

// ---------------------------------------------------------------- size update first

func ruleEncSizeUpdate(p *Prog, r *Out) {
	fd := p.decl("(*HPACK).AppendHeader")
	if fd == nil {
		r.undecided("AppendHeader", "?", "no longer resolves")
		return
	}
	r.fn("(*HPACK).AppendHeader", "(*HPACK).SetMaxTableSize")
	// first statement that appends must be the pending-size-update block
	firstAppend := -1
	flagIf := -1
	for i, s := range fd.Body.List {
		if ifs, ok := s.(*ast.IfStmt); ok && p.isFieldSel(ifs.Cond, "HPACK", "pendingSizeUpdate") && flagIf < 0 {
			flagIf = i
			// block emits maxTableSize and clears the flag
			clears, emits := false, false
			ast.Inspect(ifs.Body, func(n ast.Node) bool {
				switch x := n.(type) {
				case *ast.AssignStmt:
					if len(x.Lhs) == 1 && p.isFieldSel(x.Lhs[0], "HPACK", "pendingSizeUpdate") && p.text(x.Rhs[0]) == "false" {
						clears = true
					}
				case *ast.CallExpr:
					if p.calleeOf(x) == "appendInt" && len(x.Args) == 3 {
						usesMax := false
						ast.Inspect(x.Args[2], func(m ast.Node) bool {
							if e, ok := m.(ast.Expr); ok && p.isFieldSel(e, "HPACK", "maxTableSize") {
								usesMax = true
							}
							return true
						})
						emits = usesMax
					}
				}
				return true
			})
			// the low point: announced first, exactly when it is below the final size
			var lowIf *ast.IfStmt
			lowPos, maxPos := token.NoPos, token.NoPos
			for _, st := range ifs.Body.List {
				if in, ok := st.(*ast.IfStmt); ok && squash(p.text(in.Cond)) == "hp.pendingLowSize<hp.maxTableSize" && in.Else == nil && len(in.Body.List) == 1 {
					if squash(p.text(in.Body.List[0])) == "dst=appendInt(append(dst,0x20),5,uint64(hp.pendingLowSize))" {
						lowIf, lowPos = in, in.Pos()
					}
				}
				if squash(p.text(st)) == "dst=appendInt(append(dst,0x20),5,uint64(hp.maxTableSize))" {
					maxPos = st.Pos()
				}
			}
			r.check(lowIf != nil && maxPos.IsValid() && lowPos < maxPos, "the lowest size since the last block is announced first", p.pos(ifs.Pos()), "if pendingLowSize < maxTableSize { update(pendingLowSize) }; update(maxTableSize)", "a table size that went down and up again between two blocks is no longer announced as its low point followed by its final value (RFC 7541 s4.2): the peer keeps entries the encoder dropped on the way")
			r.check(clears, "flag cleared", p.pos(ifs.Pos()), "pendingSizeUpdate cleared when announced", "the pending-size-update flag is not cleared when the update is written: every later field would be preceded by a size update, which RFC 7541 s4.2 only allows at the start of a block")
			r.check(emits, "announces current maximum", p.pos(ifs.Pos()), "the update carries hp.maxTableSize", "the size update does not carry the encoder's current maximum table size")
		}
		has := false
		ast.Inspect(s, func(n ast.Node) bool {
			if c, ok := n.(*ast.CallExpr); ok {
				switch p.calleeOf(c) {
				case "builtin.append", "appendInt", "appendString":
					has = true
				}
			}
			return true
		})
		if has && firstAppend < 0 {
			firstAppend = i
		}
	}
	r.check(flagIf >= 0 && flagIf == firstAppend, "update precedes everything", p.pos(fd.Pos()), "pending size update is the first thing emitted",
		"AppendHeader emits something before the pending dynamic-table size update (or has no such block): the peer's decoder keeps the old size and later rejects the block or mis-indexes (RFC 7541 s4.2)")
	sd := p.decl("(*HPACK).SetMaxTableSize")
	if sd == nil {
		r.undecided("SetMaxTableSize", "?", "no longer resolves")
		return
	}
	// straight-line after the early return: stores max, sets flag, shrinks
	setsFlag, storesMax, shrinks := false, false, false
	for _, s := range sd.Body.List {
		switch x := s.(type) {
		case *ast.AssignStmt:
			if len(x.Lhs) == 1 && p.isFieldSel(x.Lhs[0], "HPACK", "pendingSizeUpdate") && p.text(x.Rhs[0]) == "true" {
				setsFlag = true
			}
			if len(x.Lhs) == 1 && p.isFieldSel(x.Lhs[0], "HPACK", "maxTableSize") {
				storesMax = true
			}
		case *ast.ExprStmt:
			if c, ok := x.X.(*ast.CallExpr); ok && p.calleeOf(c) == "(*HPACK).shrink" {
				shrinks = true
			}
		}
	}
	// the low point is kept: reset by the first change after an announcement, lowered by later ones
	keepsLow, lowAt, flagAt := false, token.NoPos, token.NoPos
	for _, st := range sd.Body.List {
		if ifs, ok := st.(*ast.IfStmt); ok && ifs.Else == nil && len(ifs.Body.List) == 1 && squash(p.text(ifs.Body.List[0])) == "hp.pendingLowSize=size" {
			if atoms, pure := pureJunction(ifs.Cond, false); pure && len(atoms) == 2 {
				got := map[string]bool{}
				for _, a := range atoms {
					t := squash(p.text(a.Cond))
					if a.Val {
						t = "!" + t
					}
					got[t] = true
				}
				// flattened by what holds when the disjunction is false
				keepsLow = got["!hp.pendingSizeUpdate"] && got["size<hp.pendingLowSize"]
				lowAt = ifs.Pos()
			}
		}
		if squash(p.text(st)) == "hp.pendingSizeUpdate=true" {
			flagAt = st.Pos()
		}
	}
	r.check(keepsLow && lowAt.IsValid() && flagAt.IsValid() && lowAt < flagAt, "the lowest size since the last block is kept", p.pos(sd.Pos()), "if !pendingSizeUpdate || size < pendingLowSize { pendingLowSize = size } before the flag is set", "SetMaxTableSize no longer keeps the smallest size set since the peer was last told (starting afresh with the first change after an announcement)")
	r.check(storesMax && setsFlag, "change sets flag", p.pos(sd.Pos()), "every change of the maximum sets pendingSizeUpdate", "SetMaxTableSize changes the maximum without unconditionally flagging the change for announcement (RFC 7541 s4.2)")
	r.check(shrinks, "change evicts", p.pos(sd.Pos()), "entries evicted down to the new maximum", "SetMaxTableSize no longer evicts entries down to the new maximum: the encoder keeps referring to entries the peer has dropped")
	// the early return must require BOTH sizes to be equal already
	early := true
	for _, s := range sd.Body.List {
		if ifs, ok := s.(*ast.IfStmt); ok {
			isRet := false
			for _, b := range ifs.Body.List {
				if _, ok := b.(*ast.ReturnStmt); ok {
					isRet = true
				}
			}
			if isRet {
				t := p.text(ifs.Cond)
				early = strings.Contains(t, "hp.maxTableSize == size") && strings.Contains(t, "&&")
				if !strings.Contains(t, "hp.maxTableSizeSettings == size") {
					early = false
				}
			}
		}
	}
	r.check(early, "no-op only when nothing changes", p.pos(sd.Pos()), "early return requires both limits equal to size", "SetMaxTableSize returns early although one of the two limits differs from the requested size")
}

// ---------------------------------------------------------------- huffman

func (p *Prog) arrayLiteralInts(name string) ([]int64, *ast.Ident) {
	init, id := p.findVarInit(name)
	cl, ok := init.(*ast.CompositeLit)
	if !ok {
		return nil, nil
	}
	var out []int64
	for _, e := range cl.Elts {
		v, ok := p.intConst(e)
		if !ok {
			return nil, id
		}
		out = append(out, v)
	}
	return out, id
}

func ruleHuffmanTables(p *Prog, r *Out) {
	codes, id1 := p.arrayLiteralInts("huffmanCodes")
	lens, id2 := p.arrayLiteralInts("huffmanCodeLen")
	if len(codes) != 256 || len(lens) != 256 {
		r.undecided("tables", "?", fmt.Sprintf("huffmanCodes/huffmanCodeLen literals not resolvable as 256 constants (%d, %d)", len(codes), len(lens)))
		return
	}
	for i := 0; i < 256; i++ {
		r.check(uint32(codes[i]) == rfcHuffmanCodes[i], fmt.Sprintf("code[%d]", i), p.pos(id1.Pos()), fmt.Sprintf("%#x", codes[i]),
			fmt.Sprintf("huffmanCodes[%d] = %#x; RFC 7541 Appendix B gives %#x for symbol %d", i, codes[i], rfcHuffmanCodes[i], i))
		r.check(uint8(lens[i]) == rfcHuffmanLens[i], fmt.Sprintf("len[%d]", i), p.pos(id2.Pos()), fmt.Sprintf("%d", lens[i]),
			fmt.Sprintf("huffmanCodeLen[%d] = %d; RFC 7541 Appendix B gives %d bits for symbol %d", i, lens[i], rfcHuffmanLens[i], i))
	}
}

func ruleHuffmanPrefix(p *Prog, r *Out) {
	codes, id1 := p.arrayLiteralInts("huffmanCodes")
	lens, _ := p.arrayLiteralInts("huffmanCodeLen")
	if len(codes) != 256 || len(lens) != 256 {
		r.undecided("tables", "?", "literals not resolvable")
		return
	}
	pos := p.pos(id1.Pos())
	inRange := true
	var kraft uint64 // in units of 2^-30
	for i := 0; i < 256; i++ {
		if lens[i] < 5 || lens[i] > 30 {
			inRange = false
			continue
		}
		kraft += 1 << uint(30-lens[i])
		if codes[i] >= 1<<uint(lens[i]) {
			inRange = false
		}
	}
	kraft++ // EOS, 30 bits
	r.check(inRange, "lengths", pos, "all lengths in 5..30 and codes fit their length", "a code length is outside 5..30 or a code does not fit its length")
	r.check(kraft == 1<<30, "kraft", pos, "Kraft sum with EOS = 1", fmt.Sprintf("Kraft sum is %d/2^30, not 1: the code is not a complete prefix code", kraft))
	// canonical: sort by (len, symbol): codes strictly increasing, and first code of next length = (last+1)<<diff
	type ent struct{ l, c, s int64 }
	var es []ent
	for i := 0; i < 256; i++ {
		es = append(es, ent{lens[i], codes[i], int64(i)})
	}
	for i := 1; i < len(es); i++ {
		for j := i; j > 0 && (es[j].l < es[j-1].l || (es[j].l == es[j-1].l && es[j].c < es[j-1].c)); j-- {
			es[j], es[j-1] = es[j-1], es[j]
		}
	}
	canon := es[0].c == 0
	for i := 1; i < len(es); i++ {
		want := (es[i-1].c + 1) << uint(es[i].l-es[i-1].l)
		if es[i].c != want {
			canon = false
		}
	}
	r.check(canon, "canonical", pos, "codes form one canonical Huffman assignment", "the codes are not a canonical prefix-free assignment: some code is a prefix of, or collides with, another")
	last := es[len(es)-1]
	eos := (last.c + 1) << uint(30-last.l)
	r.check(eos == 1<<30-1, "eos", pos, "EOS = 0x3fffffff", fmt.Sprintf("the 30-bit word after the last code is %#x, not the all-ones EOS", eos))
}

func ruleHuffmanStructure(p *Prog, r *Out) {
	enc := p.decl("HuffmanEncode")
	dec := p.decl("HuffmanDecode")
	add := p.decl("(*huffmanNode).add")
	if enc == nil || dec == nil || add == nil {
		r.undecided("anchors", "?", "HuffmanEncode/HuffmanDecode/(*huffmanNode).add no longer resolve")
		return
	}
	r.fn("HuffmanEncode", "HuffmanDecode", "(*huffmanNode).add")
	// encoder: uses both tables indexed by the input byte; pads with ones
	usesCodes, usesLens, padOnes := false, false, false
	ast.Inspect(enc.Body, func(n ast.Node) bool {
		switch x := n.(type) {
		case *ast.IndexExpr:
			if p.text(x.X) == "huffmanCodes" {
				usesCodes = true
			}
			if p.text(x.X) == "huffmanCodeLen" {
				usesLens = true
			}
		case *ast.BinaryExpr:
			// code<<n | (1<<n - 1)
			if x.Op == token.OR {
				l := p.linOf(x.Y, nil)
				if l.eq(Lin{T: map[string]int64{"1 << n": 1}, C: -1}) {
					padOnes = true
				}
			}
		}
		return true
	})
	r.check(usesCodes && usesLens, "encoder uses tables", p.pos(enc.Pos()), "codes and lengths come from the two literals", "HuffmanEncode does not index both huffmanCodes and huffmanCodeLen")
	r.check(padOnes, "encoder pads with ones", p.pos(enc.Pos()), "last octet completed with (1<<n)-1", "HuffmanEncode no longer fills the last octet with 1-bits (RFC 7541 s5.2: padding is the most significant bits of EOS)")
	padN := false
	ast.Inspect(enc.Body, func(n ast.Node) bool {
		if as, ok := n.(*ast.AssignStmt); ok && len(as.Lhs) == 1 && p.text(as.Lhs[0]) == "n" {
			if p.linOf(as.Rhs[0], nil).eq(Lin{T: map[string]int64{"length": -1}, C: 8}) {
				padN = true
			}
		}
		return true
	})
	r.check(padN, "encoder pad width", p.pos(enc.Pos()), "n = 8 - pending bits", "the pad width is no longer 8 minus the number of pending bits")
	// decoder checks
	over7, ones, nilNode := false, false, 0
	ast.Inspect(dec.Body, func(n ast.Node) bool {
		ifs, ok := n.(*ast.IfStmt)
		if !ok || !isRejectingBody(p, ifs.Body) {
			return true
		}
		if c, ok := p.canonCmp(ifs.Cond, nil); ok && c.Op == "le" {
			if c.L.eq(Lin{T: map[string]int64{"bitsLeft": -1}, C: 8}) { // bitsLeft > 7
				over7 = true
			}
		}
		t := p.text(ifs.Cond)
		if strings.Contains(t, "accBits&mask != mask") {
			if as, ok := ifs.Init.(*ast.AssignStmt); ok && len(as.Rhs) == 1 {
				if p.linOf(as.Rhs[0], nil).eq(Lin{T: map[string]int64{"1 << bits": 1}, C: -1}) {
					ones = true
				}
			}
		}
		if t == "root == nil" {
			nilNode++
		}
		return true
	})
	r.check(over7, "decoder rejects >7 padding bits", p.pos(dec.Pos()), "bitsLeft > 7 rejected", "HuffmanDecode no longer rejects more than 7 bits of padding (RFC 7541 s5.2: padding longer than 7 bits is a decoding error)")
	r.check(ones, "decoder rejects non-ones padding", p.pos(dec.Pos()), "padding compared with (1<<bits)-1", "HuffmanDecode no longer rejects padding that is not all 1-bits (RFC 7541 s5.2)")
	r.check(nilNode >= 2, "decoder rejects unknown code", p.pos(dec.Pos()), "nil table node rejected in both loops", "HuffmanDecode dereferences a table node without the nil check in one of its loops")
	// table construction
	fill := false
	ast.Inspect(add.Body, func(n ast.Node) bool {
		if as, ok := n.(*ast.AssignStmt); ok && len(as.Lhs) == 2 && len(as.Rhs) == 2 && p.text(as.Lhs[1]) == "end" {
			if p.text(as.Rhs[1]) == "1 << n" {
				fill = true
			}
		}
		return true
	})
	r.check(fill, "table fill range", p.pos(add.Pos()), "each code fills 1<<(8-len) slots", "the decode table no longer fills 1<<(8-len) slots per code")
	root, _ := p.findVarInit("rootHuffmanNode")
	okRoot := false
	if root != nil {
		t := p.text(root)
		_ = t
		ast.Inspect(root, func(n ast.Node) bool {
			if c, ok := n.(*ast.CallExpr); ok && p.calleeOf(c) == "(*huffmanNode).add" && len(c.Args) == 3 {
				if p.text(c.Args[0]) == "byte(i)" && p.text(c.Args[1]) == "code" && p.text(c.Args[2]) == "huffmanCodeLen[i]" {
					okRoot = true
				}
			}
			return true
		})
	}
	r.check(okRoot, "table built from the literals", "?", "rootHuffmanNode adds (i, huffmanCodes[i], huffmanCodeLen[i])", "the decode table is no longer built from (symbol i, huffmanCodes[i], huffmanCodeLen[i])")
}

func init() {
	register(&Rule{
		Name: "dec-short-input-signal", Props: []string{"C01", "C03", "C16", "C02"}, Engine: "AST", Floor: 5,
		Doc: "every place where the HPACK decoder gives up for lack of input (empty cursor, string longer than what is left, integer continuation running off the end) reports the one sentinel the frame-by-frame callers recognise as 'the rest is in the next frame'; any other error there turns a header block that was merely cut at that byte into COMPRESSION_ERROR. Index lookups that can yield nil are nil-checked with a rejecting return before use",
		Run: ruleDecShortInput,
	})
}

func ruleDecShortInput(p *Prog, r *Out) {
	for _, name := range []string{"readInt", "readString", "(*HPACK).nextField"} {
		fd := p.decl(name)
		if fd == nil {
			r.undecided(name, "?", "no longer resolves")
			continue
		}
		r.fn(name)
		n := 0
		ast.Inspect(fd.Body, func(x ast.Node) bool {
			ifs, ok := x.(*ast.IfStmt)
			if !ok {
				return true
			}
			c, ok := p.canonCmp(ifs.Cond, nil)
			if !ok {
				return true
			}
			short := false
			// len(b) == 0   |   len(b) < n
			if c.Op == "eq" && len(c.L.T) == 1 && c.L.C == 0 {
				for t := range c.L.T {
					if strings.HasPrefix(t, "len(") {
						short = true
					}
				}
			}
			if c.Op == "le" && len(c.L.T) == 2 {
				for t, co := range c.L.T {
					if strings.HasPrefix(t, "len(") && co == 1 {
						short = true
					}
				}
			}
			if !short {
				return true
			}
			for _, s := range ifs.Body.List {
				rs, ok := s.(*ast.ReturnStmt)
				if !ok || len(rs.Results) == 0 {
					continue
				}
				last := p.text(rs.Results[len(rs.Results)-1])
				if last == "nil" {
					continue // "nothing to decode" is not an error
				}
				n++
				r.check(last == "ErrUnexpectedSize", fmt.Sprintf("%s short input `%s`", name, p.text(ifs.Cond)), p.pos(ifs.Pos()), "returns ErrUnexpectedSize",
					fmt.Sprintf("%s answers running out of input (`%s`) with `%s` instead of ErrUnexpectedSize: a header block that a frame boundary cuts at exactly this point is refused as a decoding error instead of being continued in the next frame", name, p.text(ifs.Cond), last))
			}
			return true
		})
		// loop exhaustion in readInt: the return after the loop
		if name == "readInt" {
			last := fd.Body.List[len(fd.Body.List)-1]
			if rs, ok := last.(*ast.ReturnStmt); ok && len(rs.Results) == 3 {
				n++
				r.check(p.text(rs.Results[2]) == "ErrUnexpectedSize", "readInt continuation runs off the end", p.pos(rs.Pos()), "returns ErrUnexpectedSize", "readInt answers an integer whose continuation octets run off the end of the input with "+p.text(rs.Results[2])+" instead of ErrUnexpectedSize")
			}
		}
	}
	// peek results are nil-checked
	fd := p.decl("(*HPACK).nextField")
	if fd == nil {
		return
	}
	ast.Inspect(fd.Body, func(x ast.Node) bool {
		as, ok := x.(*ast.AssignStmt)
		if !ok || len(as.Lhs) != 1 || len(as.Rhs) != 1 {
			return true
		}
		c, ok := as.Rhs[0].(*ast.CallExpr)
		if !ok || p.calleeOf(c) != "(*HPACK).peek" {
			return true
		}
		v := p.text(as.Lhs[0])
		pm := p.pmFor(fd)
		var list []ast.Stmt
		switch b := pm[as].(type) {
		case *ast.BlockStmt:
			list = b.List
		case *ast.CaseClause:
			list = b.Body
		}
		i := stmtIndexIn(list, as)
		okk := false
		if i >= 0 && i+1 < len(list) {
			if ifs, ok := list[i+1].(*ast.IfStmt); ok && squash(p.text(ifs.Cond)) == v+"==nil" && isRejectingBody(p, ifs.Body) {
				okk = true
			}
		}
		r.check(okk, "peek result nil-checked", p.pos(as.Pos()), "if "+v+" == nil { return error } follows", "the result of peek (nil for index 0 or an index past the tables) is used without a rejecting nil check right after the lookup: a peer-chosen index dereferences nil")
		return true
	})
}
