package main

import (
	"fmt"
	"go/ast"
	"go/token"
	"go/types"

	"golang.org/x/tools/go/ssa"
)

func init() {
	register(&Rule{
		Name: "flag-scope", Props: []string{"C08", "C01", "C02"}, Engine: "KSA", Floor: 15,
		Doc: "every test of a frame flag is made where the frame-kind analysis proves the frame is of a type for which RFC 7540 s6 defines that flag (END_STREAM: DATA, HEADERS; END_HEADERS: HEADERS, PUSH_PROMISE, CONTINUATION; PADDED: DATA, HEADERS, PUSH_PROMISE; PRIORITY: HEADERS; ACK: SETTINGS, PING); flags a type does not define must be ignored (s4.1)",
		Run: ruleFlagScope,
	})
	register(&Rule{
		Name: "assertion-kinds", Props: []string{"C16", "C17", "C12"}, Engine: "KSA", Floor: 18,
		Doc: "every single-result type assertion on a frame's Body() is made where the frame-kind analysis proves the frame type's pool entry has that dynamic type (or implements that interface); otherwise a peer-chosen frame type panics the loop",
		Run: ruleAssertionKinds,
	})
}

func (p *Prog) callExprAt(pos token.Pos) *ast.CallExpr {
	var idx map[token.Pos]*ast.CallExpr
	if v, ok := p.memo["callidx"]; ok {
		idx = v.(map[token.Pos]*ast.CallExpr)
	} else {
		idx = map[token.Pos]*ast.CallExpr{}
		for _, f := range append(append([]*ast.File{}, p.Files...), p.UFiles...) {
			inspectCalls(f, func(c *ast.CallExpr) { idx[c.Lparen] = c })
		}
		p.memo["callidx"] = idx
	}
	return idx[pos]
}

var flagKinds = map[string]uint16{
	"FlagEndStream":  1<<0 | 1<<1,
	"FlagEndHeaders": 1<<1 | 1<<5 | 1<<9,
	"FlagPadded":     1<<0 | 1<<1 | 1<<5,
	"FlagPriority":   1 << 1,
	"FlagAck":        1<<4 | 1<<6,
}

// reviewed exemptions: one named construct each.
var flagScopeExempt = map[string]string{
	"(*serverConn).handleHeaderFrame tests FlagEndStream | FlagEndHeaders": "trailer test, guarded by strm.headersFinished: a CONTINUATION cannot arrive once the block has ended because the read loop rejects an unexpected CONTINUATION before forwarding it; so K is effectively HEADERS",
}

func ruleFlagScope(p *Prog, r *Out) {
	ks := p.ksa()
	for _, f := range p.allFuncs() {
		if f.Pkg != p.SPkg {
			continue
		}
		for _, b := range f.Blocks {
			for _, in := range b.Instrs {
				c, ok := in.(*ssa.Call)
				if !ok || p.calleeName(c.Common()) != "(FrameFlags).Has" || len(c.Call.Args) != 2 {
					continue
				}
				// receiver must be Flags() of a frame header (possibly via a local)
				fl, ok := c.Call.Args[0].(*ssa.Call)
				if !ok || p.calleeName(fl.Common()) != "(*FrameHeader).Flags" {
					// flags copied to a local first (Headers.Deserialize): trace one step
					continue
				}
				fr := fl.Call.Args[0]
				// which flag(s): from the AST argument
				ce := p.callExprAt(c.Pos())
				allowed := kAll
				name := "?"
				if ce != nil && len(ce.Args) == 1 {
					name = p.text(ce.Args[0])
					ast.Inspect(ce.Args[0], func(n ast.Node) bool {
						if id, ok := n.(*ast.Ident); ok {
							if m, ok := flagKinds[id.Name]; ok {
								allowed &= m
							}
						}
						return true
					})
				}
				if allowed == kAll {
					r.undecided(p.fname(f)+" tests "+name, p.ipos(in), "flag constant not recognised")
					continue
				}
				k := ks.kindAt(in, fr)
				key := p.fname(f) + " tests " + name
				r.fn(p.fname(f))
				if why, ok := flagScopeExempt[key]; ok && k&^allowed != 0 {
					r.ok(key, p.ipos(in), "exempt: "+why)
					continue
				}
				r.check(k&^allowed == 0, key, p.ipos(in), fmt.Sprintf("frame is %s here", kindsString(k)),
					fmt.Sprintf("%s tests %s where the frame can be of type %s; RFC 7540 s6 defines that flag only for %s, and an undefined flag bit must be ignored (s4.1): a %s frame carrying the bit is treated as if it ended the stream or block", p.fname(f), name, kindsString(k), kindsString(allowed), kindsString(k&^allowed)))
			}
		}
	}
}

func ruleAssertionKinds(p *Prog, r *Out) {
	ks := p.ksa()
	// kind -> Go type of the pool entry
	poolType := map[int64]*types.Named{}
	for _, fi := range p.frameImpls() {
		if tn, ok := p.Pkg.Scope().Lookup(fi.Name).(*types.TypeName); ok && fi.Kind >= 0 {
			poolType[fi.Kind] = tn.Type().(*types.Named)
		}
	}
	for _, f := range p.allFuncs() {
		if f.Pkg != p.SPkg {
			continue
		}
		for _, b := range f.Blocks {
			for _, in := range b.Instrs {
				ta, ok := in.(*ssa.TypeAssert)
				if !ok {
					continue
				}
				bc, ok := ta.X.(*ssa.Call)
				if !ok || p.calleeName(bc.Common()) != "(*FrameHeader).Body" {
					continue
				}
				fr := bc.Call.Args[0]
				tname := types.TypeString(ta.AssertedType, types.RelativeTo(p.Pkg))
				key := p.fname(f) + " asserts Body().(" + tname + ")"
				r.fn(p.fname(f))
				if ta.CommaOk {
					r.ok(key+" comma-ok", p.ipos(in), "two-result assertion cannot panic")
					continue
				}
				var allowed uint16
				for k, nt := range poolType {
					ptr := types.NewPointer(nt)
					if iface, ok := ta.AssertedType.Underlying().(*types.Interface); ok {
						if types.Implements(ptr, iface) {
							allowed |= 1 << uint(k)
						}
					} else if types.Identical(ptr, ta.AssertedType) {
						allowed |= 1 << uint(k)
					}
				}
				k := ks.kindAt(in, fr)
				r.check(k&^allowed == 0, key, p.ipos(in), fmt.Sprintf("frame is %s here", kindsString(k)),
					fmt.Sprintf("%s asserts Body().(%s) where the frame can be %s; only %s frames carry that body, so a peer sending a %s frame on this path panics the goroutine", p.fname(f), tname, kindsString(k), kindsString(allowed), kindsString(k&^allowed)))
			}
		}
	}
}
