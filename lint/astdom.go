package main

import (
	"go/ast"
	"go/token"
)

// guardCond is one enclosing condition of a node: the node executes only when
// Cond evaluated to Val.
type guardCond struct {
	Cond ast.Expr
	Val  bool
	If   *ast.IfStmt
}

// enclosingGuards lists, innermost first, the if-conditions under which n
// executes inside root (then-branch: true; else-branch: false). Early-exit
// guards of enclosing statement lists (`if c { return|continue|break }` before
// n in the same list) are included with Val=false.
func (p *Prog) enclosingGuards(pm map[ast.Node]ast.Node, n ast.Node) []guardCond {
	var out []guardCond
	child := n
	for cur := pm[n]; cur != nil; cur = pm[cur] {
		switch x := cur.(type) {
		case *ast.IfStmt:
			if child == ast.Node(x.Body) {
				out = append(out, guardCond{x.Cond, true, x})
			} else if x.Else != nil && child == ast.Node(x.Else) {
				out = append(out, guardCond{x.Cond, false, x})
			}
		case *ast.BlockStmt:
			out = append(out, earlyExits(x.List, child)...)
		case *ast.CaseClause:
			out = append(out, earlyExits(x.Body, child)...)
		case *ast.CommClause:
			out = append(out, earlyExits(x.Body, child)...)
		case *ast.FuncLit, *ast.FuncDecl:
			return out
		}
		child = cur
	}
	return out
}

// earlyExits: for statements before child in list, `if c { ...exit }` without
// else contributes (c, false).
func earlyExits(list []ast.Stmt, child ast.Node) []guardCond {
	var out []guardCond
	for _, s := range list {
		if ast.Node(s) == child {
			break
		}
		ifs, ok := s.(*ast.IfStmt)
		if !ok || ifs.Else != nil || len(ifs.Body.List) == 0 {
			continue
		}
		if exits(ifs.Body.List[len(ifs.Body.List)-1]) {
			out = append(out, guardCond{ifs.Cond, false, ifs})
		}
	}
	// innermost first: reverse so that the closest preceding guard comes first
	for i, j := 0, len(out)-1; i < j; i, j = i+1, j-1 {
		out[i], out[j] = out[j], out[i]
	}
	return out
}

func exits(s ast.Stmt) bool {
	switch x := s.(type) {
	case *ast.ReturnStmt:
		return true
	case *ast.BranchStmt:
		return x.Tok == token.CONTINUE || x.Tok == token.BREAK || x.Tok == token.GOTO
	case *ast.ExprStmt:
		if c, ok := x.X.(*ast.CallExpr); ok {
			if id, ok := c.Fun.(*ast.Ident); ok && id.Name == "panic" {
				return true
			}
		}
	}
	return false
}

// conjuncts splits a condition known to be val into atoms known true/false:
// (a && b)=true gives a=true,b=true; (a || b)=false gives a=false,b=false;
// !x flips. Disjunctive knowledge is dropped (sound: fewer facts).
func conjuncts(e ast.Expr, val bool) []guardCond {
	e = ast.Unparen(e)
	switch x := e.(type) {
	case *ast.UnaryExpr:
		if x.Op == token.NOT {
			return conjuncts(x.X, !val)
		}
	case *ast.BinaryExpr:
		if x.Op == token.LAND && val {
			return append(conjuncts(x.X, true), conjuncts(x.Y, true)...)
		}
		if x.Op == token.LOR && !val {
			return append(conjuncts(x.X, false), conjuncts(x.Y, false)...)
		}
		if x.Op == token.LAND || x.Op == token.LOR {
			return nil
		}
	}
	return []guardCond{{Cond: e, Val: val}}
}

// knownFacts flattens enclosingGuards into atoms.
func (p *Prog) knownFacts(pm map[ast.Node]ast.Node, n ast.Node) []guardCond {
	var out []guardCond
	for _, g := range p.enclosingGuards(pm, n) {
		for _, a := range conjuncts(g.Cond, g.Val) {
			a.If = g.If
			out = append(out, a)
		}
	}
	return out
}

// stmtIndexIn returns the index of the statement of list that contains n.
func stmtIndexIn(list []ast.Stmt, n ast.Node) int {
	for i, s := range list {
		if s.Pos() <= n.Pos() && n.End() <= s.End() {
			return i
		}
	}
	return -1
}

// enclosingFunc returns the name of the FuncDecl containing n.
func enclosingFunc(pm map[ast.Node]ast.Node, n ast.Node) string {
	for cur := n; cur != nil; cur = pm[cur] {
		if fd, ok := cur.(*ast.FuncDecl); ok {
			return declName(fd)
		}
	}
	return "?"
}

// filePM caches parent maps per file.
func (p *Prog) parentMaps() map[*ast.File]map[ast.Node]ast.Node {
	if v, ok := p.memo["pms"]; ok {
		return v.(map[*ast.File]map[ast.Node]ast.Node)
	}
	m := map[*ast.File]map[ast.Node]ast.Node{}
	for _, f := range append(append([]*ast.File{}, p.Files...), p.UFiles...) {
		m[f] = parentMap(f)
	}
	p.memo["pms"] = m
	return m
}

func (p *Prog) pmFor(n ast.Node) map[ast.Node]ast.Node {
	for f, pm := range p.parentMaps() {
		if f.Pos() <= n.Pos() && n.End() <= f.End() {
			return pm
		}
	}
	return nil
}

// isConjunctionOf reports whether cond is exactly the conjunction of the
// given atoms (whitespace-free source text; a leading '!' for a negated
// atom), in any order and with any parenthesisation or De Morgan form.
func (p *Prog) isConjunctionOf(cond ast.Expr, atoms ...string) bool {
	got, pure := pureJunction(cond, true)
	if !pure || len(got) != len(atoms) {
		return false
	}
	want := map[string]bool{}
	for _, a := range atoms {
		want[a] = true
	}
	for _, g := range got {
		t := squash(p.text(g.Cond))
		if !g.Val {
			t = "!" + t
		}
		if !want[t] {
			return false
		}
		delete(want, t)
	}
	return len(want) == 0
}

// boolLeaves counts the atoms of a boolean expression (everything that is not
// &&, ||, ! or a parenthesis). conjuncts drops sub-terms it cannot flatten, so
// a pure conjunction (or, with val=false, a pure disjunction) is one where the
// flattened list has as many entries as the expression has atoms.
func boolLeaves(e ast.Expr) int {
	e = ast.Unparen(e)
	switch x := e.(type) {
	case *ast.UnaryExpr:
		if x.Op == token.NOT {
			return boolLeaves(x.X)
		}
	case *ast.BinaryExpr:
		if x.Op == token.LAND || x.Op == token.LOR {
			return boolLeaves(x.X) + boolLeaves(x.Y)
		}
	}
	return 1
}

// pureJunction flattens e as a conjunction (val=true) or disjunction
// (val=false); ok=false when e mixes connectives.
func pureJunction(e ast.Expr, val bool) ([]guardCond, bool) {
	atoms := conjuncts(e, val)
	return atoms, len(atoms) > 0 && len(atoms) == boolLeaves(e)
}
