package main

// Per-property statement of what the static rules decide and what they do not.
// Repeated in every evidence file (coverage.explanation).

func init() {
	m := func(id, decided, not string, assume ...string) {
		propMetas[id] = propMeta{
			Explanation: "STATIC ANALYSIS ONLY (level other). Decided, for every input and schedule at once, as structural necessary conditions visible in /repo's current source: " + decided + " NOT decided (needs execution; no runtime check stands in for it): " + not,
			Assumptions: assume,
		}
	}
	m("C01",
		"the handler is dispatched only under (half-closed, header block finished, not yet dispatched) with the marker set first and never cleared; a header field cut by a frame boundary is carried over to the next frame in every server decode loop and the decoder is told block position; case folding of names touches only A-Z; flags are tested only on frame types that define them; padding and the priority section are stripped by the amounts RFC 7540 gives.",
		"that the handler sees exactly the bytes sent under every encoding/fragmentation/interleaving; END_STREAM exactly once on the response (the streamed-body case of the property text is not covered by any rule); handler completion orders; body content.")
	m("C02",
		"the request's stream id is taken from nextID, advanced by exactly 2, and the same value keys the frame, the Ctx and the waiter table; the waiter (and pending body) is registered before the HEADERS write; the read loop looks the waiter up by the frame's own stream id and writes only into that waiter's Response; header-name folding touches only A-Z; END_STREAM is honoured only on DATA/HEADERS; CONTINUATION carry-over in the client decode loop (reported as a known finding: absent).",
		"cross-delivery freedom under arbitrary interleavings beyond the keying clause; body integrity; what a server makes of the encoder's output (see C04).")
	m("C03",
		"the 61-entry static table and the 32-octet entry overhead equal RFC 7541; for each of the 256 first octets the first matching decoder clause is the RFC's representation (prefix width, never-indexed marking, table insertion, size update); on every path through a clause the cursor advances exactly as the RFC grammar of that representation; the integer decoder's overflow guard admits no shift that drops bits; size updates are rejected when not at block start or above the SETTINGS limit, before being applied, and are followed by eviction; dynamic-table addressing (decoder index mapping with bounds check, encoder search indices, eviction from the oldest end, insert order) matches RFC 7541 s2.3.3/s4 as linear forms.",
		"equality of decoder and encoder tables over histories; Huffman bit loops (see C15); anything about values actually decoded.")
	m("C04",
		"on every syntactic path of the field encoder the representation octet and integer prefix width are an RFC 7541 s6 pair, the encoder inserts into its table iff it emitted 0x40 (one guard accepted under a checked side condition on search), sensitive fields are emitted 0x10 and never inserted, indexed fields carry no value and literals exactly one; the single-octet boundary of the integer encoder equals the decoder's; no encoder branch reads emitted octets; a pending size change is announced first and every SetMaxTableSize change sets the flag and evicts.",
		"round-trip equality over histories, eviction symmetry under DisableCompression/DisableDynamicTable, the 'minimum then final' size-update rule of RFC 7541 s4.2.")
	m("C05",
		"frame type/flag/error/settings constants, header size, default and maximum frame size and the preface equal RFC 7540; the 9-octet header is read and written at the RFC offsets with the stream id masked; big-endian helpers; per type, flags tested/set are flags the RFC defines for it and flag<->field maps agree in both directions; every field Deserialize stores is read by Serialize and no payload field is sourced from the frame header; 31-bit fields are masked, 32-bit ones are not; fixed-size payloads compare for equality; padding and priority stripping; reader consumes 9 then exactly length octets and the writer stores len(payload) before encoding the header; SETTINGS entry layout and id<->field table.",
		"that an independent parser (x/net) reads the same fields: the oracle is the embedded RFC table; padding content (AddPadding fills non-zero padding); values of any particular frame.")
	m("C06",
		"the only server function that acquires a DATA frame is the audited emitter; in it the payload is pendingData[:step] with step bounded above by the stream window, the connection window, the pending length and a constant <= 2^14, sent only past `available <= 0 -> stop`, and both windows are debited by that same step unconditionally in the same iteration; every store to a send-window field is an audited init/credit/debit site with the right direction; SETTINGS_INITIAL_WINDOW_SIZE is applied as exactly new-remembered to every open stream under its presence marker; every credit site is followed by a flush attempt; window comparisons against 2^31-1 are strict.",
		"the liveness half ('eventually sent'), fairness across streams, timing; the inequality itself is argued as an induction whose step the rules check (single-goroutine ownership from C19 is assumed).")
	m("C07",
		"in the client's body sender n is bounded by stream window, connection window and buffered length (clamped at 0), both windows are debited by n and body[:n] is what is flushed, all between sendLck.Lock and Unlock; the frame writer cuts body[i:i+step] with step from the peer's MAX_FRAME_SIZE (fallback 2^14), shrinking only by the tail idiom; window writers, initial-window delta under the lock and presence marker, credit-then-signal.",
		"END_STREAM exactly once; liveness; int32 wrap of connWindow on oversized grants; the unlocked read of Conn.streamWindow in writeRequest is reported (known finding, access-discipline).")
	m("C08",
		"every flag test happens where the frame-kind analysis proves a type that defines the flag; every comparison of a window with 2^31-1 is strict; the dispatch guard (half-closed, headers finished, not dispatched) and stream-creation guards (limit, closing, closed-id memory, lower-than-latest) precede their actions; every insertion into the stream table is counted (known finding: only HEADERS are).",
		"sequences (histories) as such: only the per-frame step relation's guards are examined; the per-state acceptance sets of verifyState/handleFrame are not compared cell by cell with RFC 7540 s5.1 (the design's state-table rule was not built); CONTINUATION sequencing in the read loop.")
	m("C09",
		"every path on which the server moves to the next frame after HEADERS/CONTINUATION has fed the block to the HPACK decoder or terminated the connection (per-frame obligation analysis with frame-kind refinement, witness paths reported); no stream-scoped return leaves a decode loop while block bytes remain; DATA is always accounted against the receive window or the connection terminated; the handler goroutine recovers and reports back on every path; streams and request contexts are recycled only with no handler running.",
		"whether later requests actually decode correctly (the consequence; the rules decide its structural cause); which frames in flight belong to streams the server itself reset.")
	m("C10",
		"writeGoAway marks the connection closing and queues the frame on every path; the value placed in last-stream-id is traced to its origin (known finding: a parameter fed with literals/offending ids, never lastID); streams are created only when the closing flag, sampled before the frame is handled, was clear; every channel send is a select arm with a stop/default alternative.",
		"bounded-time return of ServeConn, what is dispatched after GOAWAY in a given schedule, the error code chosen per offence.")
	m("C11",
		"a stream id is allocated only after CanOpenStream() said yes, and CanOpenStream refuses after GOAWAY, on id exhaustion and at MAX_CONCURRENT_STREAMS; GOAWAY receipt sets the flag on every path; openStreams is decremented only where takeReq removed the stream; each retryable sentinel is produced only before the HEADERS write or as the alternative to handing the request over (one post-hand-over site accepted under checked side conditions); nothing reachable from GOAWAY receipt resolves streams above last-stream-id (known finding).",
		"that requests at or below last-stream-id complete; races between GOAWAY receipt and a concurrent write; HEADERS counts at a server.")
	m("C12",
		"every site that removes a request from the waiter table or the input queue leads to resolve in the same function or in a reviewed caller whose condition is re-checked; resolve sends at most once without blocking under resLck; takeBack marks done/resolved under their locks; the write loop records an error, closes, then drains; every channel send has an alternative; goroutine entry points are the reviewed set and the loops recover; type assertions on frame bodies are kind-safe and residual bounds checks are the reviewed ones (no panic from peer input).",
		"timeouts, deadlock freedom, goroutine exit, 'within its configured timeout': schedules and time cannot be enumerated statically.")
	m("C13",
		"stream creation is dominated by the concurrency-limit test; the slot is returned only in releaseStream, which runs only with no handler on the stream; header-list and body limits are rejecting early exits before every accept site; body appends are bounded; the closed-id ring evicts when full; known findings: table insertions are counted only for HEADERS, carried-over header bytes are unbounded.",
		"the numeric bounds themselves, handler counts under schedules, queued control replies.")
	m("C14",
		"per-frame obligation analysis: every path that moves on after a DATA frame has debited the connection receive counter or terminated the connection (server and client; known findings: refused stream, body-too-large, client frames without a waiter); the debit is the frame length (padding included); below max/2 the connection WINDOW_UPDATE is exactly max-current and current is reset to max; stream credit equals the frame length; increments are positive by a dominating guard; stream credit must not depend on the unpadded data length (known finding, client).",
		"'eventually returns enough' as a liveness statement; the 2^31-1 ceiling on the receiver's own grants (bounded by constants, not checked).")
	m("C15",
		"the 256 code and 256 length literals equal RFC 7541 Appendix B (embedded table generated from an independent implementation); computed from the repository's literals: lengths in 5..30, Kraft sum with EOS exactly 1, canonical assignment, EOS all ones; structural necessary conditions of the bit loops: 1-bit padding of width 8-pending, rejection of >7 padding bits, of non-ones padding and of missing table nodes, table built from the same literals.",
		"the bit arithmetic of HuffmanEncode/HuffmanDecode on all inputs and the exact accept/reject boundary: that is behaviour of arithmetic, which needs execution or a solver. The property is claimed for the table and structure clauses only.")
	m("C16",
		"the compiler's list of bounds checks it could not eliminate equals the reviewed list (each with the reason it cannot fail); length and type-range checks precede allocation and pool indexing; unknown frames are skipped by exactly their length and known ones read by exactly length octets; fixed-size payloads compare for equality; padding guards; type assertions on Body() are kind-safe; explicit panics are the reviewed ones; a body released on a short read is cleared from its header (no double release); no pooled object is used after release; the HPACK cursor advances on every path or fails; the frame bound is the endpoint's own setting.",
		"allocation amounts, 'correct reading' as values, Huffman output bounds; nil dereferences other than through the rules above.")
	m("C17",
		"panic-freedom clauses as C16 over everything reachable from the server loops; every server loop and the handler goroutine recover; the write-loop goroutine closes the socket on exit; goroutine roots are the reviewed set; a RequestCtx is recycled only with no handler running; no bare channel send.",
		"'returns once the peer is gone', goroutine leaks, write failures at arbitrary points.")
	m("C18",
		"handleSettings (each role) queues exactly one unconditional ACK and is called only for SETTINGS without ACK; Settings.Read validates ENABLE_PUSH, INITIAL_WINDOW_SIZE and MAX_FRAME_SIZE with the RFC's codes as connection errors and ignores unknown ids; Read/Encode id<->field tables are inverse; the frame reader's bound is the endpoint's own setting; the client's concurrency gate uses the peer's published MAX_CONCURRENT_STREAMS; DATA frame size is bounded by the peer's setting (client) or 2^14 (server); known findings: parameters applied without presence markers, Encode omits non-initial values (ENABLE_PUSH=0 never sent), no CONTINUATION emitter in either role, the server resizes its encoder on the read loop.",
		"ordering of ACKs relative to application under schedules, sizes of actual header blocks.")
	m("C19",
		"every access (661 on the pinned tree) to a field of serverConn, Conn, Client, Ctx, pendingBody and Stream conforms to a frozen per-field discipline (owner goroutine, mutex, atomic, init-only) computed from a package call graph with closure/parameter resolution, goroutine roots, lock regions and verified wrappers; caller-holds functions are re-checked at every call site; pooled objects are not used or released again after release/hand-off; released bodies are cleared from live headers; every pooled type's fields are reset on acquire.",
		"races on objects reached through other packages' interfaces (fasthttp request/response internals); happens-before through channels beyond the hand-off rule; uses through phi-merged values. The Go race detector is the dynamic complement and is not part of this machinery.",
		"a goroutine touches connection state only through functions of package http2")
	m("C20",
		"every site accepting a decoded request field (server) or response field (client) lies behind each applicable validator's rejecting early exit; unknown pseudo-headers are rejected by a default clause; mandatory pseudo-headers and a non-empty :path are checked at END_HEADERS with the error returned; the content-length/DATA comparison guards the dispatch; every parseUint error rejects; decimal accumulation tests for overflow.",
		"the 'if and only if': that every well-formed list is accepted, duplicate/missing :status on the client (no check exists to anchor a rule), anything about bodies.")
}
