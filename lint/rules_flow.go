package main

import (
	"fmt"
	"go/ast"
	"go/token"
	"strings"

	"golang.org/x/tools/go/ssa"
)

func init() {
	register(&Rule{
		Name: "srv-chunk-bound", Props: []string{"C06"}, Engine: "UB", Floor: 6,
		Doc: "in the server's DATA emitter the slice handed to the frame is pendingData[:step] with step bounded above by the stream window, the connection window, the pending length and a constant <= 2^14, reached only past `available <= 0 -> stop`; both windows are then debited by that same step, unconditionally, in the same iteration",
		Run: ruleSrvChunkBound,
	})
	register(&Rule{
		Name: "cli-chunk-bound", Props: []string{"C07", "C02", "C12"}, Engine: "UB", Floor: 9,
		Doc: "in the client's body sender the byte count n is bounded above by the stream window, the connection window and the buffered length (clamped at 0), both windows are debited by n and body[:n] is what is flushed, all under sendLck; the frame writer cuts body[i:i+step] with step bounded by the peer's MAX_FRAME_SIZE (fallback 2^14) and the tail idiom",
		Run: ruleCliChunkBound,
	})
	register(&Rule{
		Name: "window-writers", Props: []string{"C06", "C07", "C19"}, Engine: "SSA", Floor: 14,
		Doc: "every store to a send-window field (serverConn.clientWindow, Stream.window, Conn.connWindow, Conn.streamWindow, pendingBody.window) is at an audited site: initialisation, credit (WINDOW_UPDATE / SETTINGS delta, value = old + x) or debit in the DATA emitter (value = old - bytes sent); a new writer or a changed direction is reported",
		Run: ruleWindowWriters,
	})
	register(&Rule{
		Name: "initial-window-delta", Props: []string{"C06", "C07"}, Engine: "LIN", Floor: 6,
		Doc: "a SETTINGS_INITIAL_WINDOW_SIZE change is applied to every open stream's send window as exactly (new - remembered), the remembered value is then set to new, all under the parameter's presence marker (server: stream loop; client: applyInitialWindow under sendLck) (RFC 7540 s6.9.2)",
		Run: ruleInitialWindowDelta,
	})
	register(&Rule{
		Name: "credit-then-flush", Props: []string{"C06", "C07"}, Engine: "DOM", Floor: 5,
		Doc: "every site that grows a send window is followed on its straight-line path by a flush attempt (server: flushStreams / the resume branch of the stream loop; client: signalWindow, which the write loop answers with flushPending): the lost-wakeup necessary condition for blocked response or request bodies to resume",
		Run: ruleCreditThenFlush,
	})
	register(&Rule{
		Name: "hdr-must-decode", Props: []string{"C09"}, Engine: "OPA", Floor: 3,
		Doc: "every path on which the server moves on to the next frame after receiving HEADERS or CONTINUATION has fed the header block to the connection's HPACK decoder, or has terminated the connection: a block skipped (refused stream, early stream error) leaves the shared dynamic table out of step for every later request",
		Run: ruleHdrMustDecode,
	})
	register(&Rule{
		Name: "data-must-credit", Props: []string{"C14", "C09"}, Engine: "OPA", Floor: 4,
		Doc: "every path on which a receiver moves on after a DATA frame has accounted the frame's length against the connection receive window (server: consumeRecvWindow; client: the currentWindow debit in readStream), or has terminated the connection: DATA dropped without accounting is never credited back and the peer's connection window leaks until it stalls",
		Run: ruleDataMustCredit,
	})
	register(&Rule{
		Name: "recv-window-refill", Props: []string{"C14"}, Engine: "LIN", Floor: 6,
		Doc: "both receivers debit the connection receive counter by the frame length (padding included) and, below half the maximum, send a connection WINDOW_UPDATE of exactly (max - current) and reset current to max on the same path; the stream-level credit equals the frame length",
		Run: ruleRecvWindowRefill,
	})
	register(&Rule{
		Name: "increment-positive", Props: []string{"C14"}, Engine: "DOM", Floor: 4,
		Doc: "no WINDOW_UPDATE is emitted with an increment that can be 0: each increment argument is positive by a dominating guard (n <= 0 -> return), by max - current under current < max/2, or is a constant > 0; and stream-level credit is not conditional on the unpadded data length",
		Run: ruleIncrementPositive,
	})
}

// ---------------------------------------------------------------- helpers

// findLoopWith returns the innermost for statement in fd containing n.
func innermostFor(pm map[ast.Node]ast.Node, n ast.Node) *ast.ForStmt {
	for cur := pm[n]; cur != nil; cur = pm[cur] {
		if f, ok := cur.(*ast.ForStmt); ok {
			return f
		}
	}
	return nil
}

// topLevelIn reports whether stmt s is a direct element of list.
func topLevelIn(list []ast.Stmt, n ast.Node) bool {
	for _, s := range list {
		if ast.Node(s) == n {
			return true
		}
		if es, ok := s.(*ast.ExprStmt); ok && ast.Node(es.X) == n {
			return true
		}
	}
	return false
}

// ---------------------------------------------------------------- server chunk

func ruleSrvChunkBound(p *Prog, r *Out) {
	fd := p.decl("(*serverConn).sendData")
	if fd == nil {
		r.undecided("sendData", "?", "(*serverConn).sendData no longer resolves")
		return
	}
	r.fn("(*serverConn).sendData")
	pm := p.pmFor(fd)
	var setData *ast.CallExpr
	inspectCalls(fd.Body, func(c *ast.CallExpr) {
		if p.calleeOf(c) == "(*Data).SetData" {
			setData = c
		}
	})
	if setData == nil {
		r.bad("payload", p.pos(fd.Pos()), "sendData no longer hands a payload to a DATA frame")
		return
	}
	loop := innermostFor(pm, setData)
	if loop == nil {
		r.undecided("loop", p.pos(setData.Pos()), "the DATA emitter is not inside a loop")
		return
	}
	u := ubState{}
	p.ubWalk(loop.Body.List, u, setData)
	// the payload: an identifier defined as X[:step] or the slice itself
	defs := singleDefs(loop.Body)
	payload := ast.Unparen(setData.Args[0])
	if id, ok := payload.(*ast.Ident); ok {
		if d, ok := defs[id.Name]; ok {
			payload = ast.Unparen(d)
		}
	}
	se, ok := payload.(*ast.SliceExpr)
	if !ok || se.Low != nil || se.High == nil {
		r.undecided("payload", p.pos(setData.Pos()), "payload is not of the form buffer[:step]")
		return
	}
	step := p.ubKey(se.High)
	bounds := u[step]
	src := p.text(se.X)
	need := []struct{ what, key string }{
		{"stream window", "strm.window"},
		{"connection window", "sc.clientWindow"},
		{"pending length", "len(" + src + ")"},
	}
	for _, n := range need {
		r.check(bounds[n.key], "step <= "+n.what, p.pos(setData.Pos()), fmt.Sprintf("%s <= %s", step, n.key),
			fmt.Sprintf("the DATA payload is %s[:%s] but %s is not bounded above by the %s (%s); known bounds: %v. More bytes than the peer granted can be sent (RFC 7540 s6.9: FLOW_CONTROL_ERROR at the peer)", src, step, step, n.what, n.key, sortedKeys(bounds)))
	}
	constOK := false
	for b := range bounds {
		if v, ok := p.pkgConst(b); ok && v > 0 && v <= 1<<14 {
			constOK = true
		}
	}
	r.check(constOK, "step <= 2^14", p.pos(setData.Pos()), "frame size bounded by a constant <= 16384", fmt.Sprintf("the DATA payload length %s has no constant upper bound <= 2^14 (bounds %v): a frame larger than the peer's default SETTINGS_MAX_FRAME_SIZE can be emitted", step, sortedKeys(bounds)))
	// stop when nothing is available
	stop := false
	for _, g := range p.enclosingGuards(pm, setData) {
		if g.Val || g.If == nil {
			continue
		}
		if c, ok := p.canonCmp(g.Cond, nil); ok && c.Op == "le" && len(c.L.T) == 1 && c.L.C == 0 {
			for t, co := range c.L.T {
				if co == 1 && (u[step][t] || t == step) {
					stop = true
				}
			}
		}
	}
	r.check(stop, "stop at window <= 0", p.pos(setData.Pos()), "available <= 0 returns before sending", "the emitter no longer stops when the available window is <= 0: a zero or negative window (after a SETTINGS decrease) still sends")
	// debits
	for _, w := range []struct{ owner, field, expr string }{{"Stream", "window", "strm.window"}, {"serverConn", "clientWindow", "sc.clientWindow"}} {
		found := false
		for _, s := range loop.Body.List {
			as, ok := s.(*ast.AssignStmt)
			if !ok || len(as.Lhs) != 1 || !p.isFieldSel(as.Lhs[0], w.owner, w.field) {
				continue
			}
			if as.Pos() < setData.Pos() {
				continue
			}
			if as.Tok == token.SUB_ASSIGN && p.ubKey(as.Rhs[0]) == step {
				found = true
			}
			if as.Tok == token.ASSIGN {
				l := p.linOf(as.Rhs[0], nil)
				if l.eq(Lin{T: map[string]int64{w.expr: 1, step: -1}}) {
					found = true
				}
			}
		}
		r.check(found, "debit "+w.expr, p.pos(loop.Pos()), fmt.Sprintf("%s -= %s after the write, unconditionally", w.expr, step),
			fmt.Sprintf("after queuing a DATA frame of %s bytes the emitter does not debit %s by that same amount on every iteration: the window ledger drifts above what the peer granted and later chunks overspend it", step, w.expr))
	}
	// nothing else in the loop stores to the windows
	extra := ""
	ast.Inspect(loop.Body, func(n ast.Node) bool {
		as, ok := n.(*ast.AssignStmt)
		if !ok {
			return true
		}
		for _, l := range as.Lhs {
			if (p.isFieldSel(l, "Stream", "window") || p.isFieldSel(l, "serverConn", "clientWindow")) && !topLevelIn(loop.Body.List, as) {
				extra = p.pos(as.Pos())
			}
		}
		return true
	})
	r.check(extra == "", "no conditional window store", p.pos(loop.Pos()), "windows only change by the unconditional debit", "a send window is also stored conditionally at "+extra)
}

// ---------------------------------------------------------------- client chunk

func ruleCliChunkBound(p *Prog, r *Out) {
	fd := p.decl("(*Conn).sendPending")
	if fd == nil {
		r.undecided("sendPending", "?", "(*Conn).sendPending no longer resolves")
	} else {
		r.fn("(*Conn).sendPending")
		pm := p.pmFor(fd)
		var flush *ast.CallExpr
		inspectCalls(fd.Body, func(c *ast.CallExpr) {
			if p.calleeOf(c) == "(*Conn).flushData" {
				flush = c
			}
		})
		if flush == nil {
			r.bad("flush", p.pos(fd.Pos()), "sendPending no longer hands a body slice to flushData")
		} else if loop := innermostFor(pm, flush); loop == nil {
			r.undecided("loop", p.pos(flush.Pos()), "flushData is not called inside the send loop")
		} else {
			u := ubState{}
			p.ubWalk(loop.Body.List, u, flush)
			defs := map[string]ast.Expr{}
			for _, s := range loop.Body.List {
				if as, ok := s.(*ast.AssignStmt); ok && as.Tok == token.DEFINE && len(as.Lhs) == 1 && len(as.Rhs) == 1 {
					if id, ok := as.Lhs[0].(*ast.Ident); ok {
						defs[id.Name] = as.Rhs[0]
					}
				}
			}
			body := ast.Unparen(flush.Args[1])
			if id, ok := body.(*ast.Ident); ok && defs[id.Name] != nil {
				body = ast.Unparen(defs[id.Name])
			}
			se, ok := body.(*ast.SliceExpr)
			if !ok || se.Low != nil || se.High == nil {
				r.undecided("flushed slice", p.pos(flush.Pos()), "the flushed body is not of the form buffer[:n]")
			} else {
				n := p.ubKey(se.High)
				src := p.text(se.X)
				b := u[n]
				for _, w := range []struct{ what, key string }{{"stream window", "pb.window"}, {"connection window", "c.connWindow"}, {"buffered length", "len(" + src + ")"}} {
					r.check(b[w.key], "n <= "+w.what, p.pos(flush.Pos()), fmt.Sprintf("%s <= %s", n, w.key),
						fmt.Sprintf("the client flushes %s[:%s] but %s is not bounded above by the %s (%s); known bounds: %v", src, n, n, w.what, w.key, sortedKeys(b)))
				}
				r.check(b["0-clamped"], "n clamped at 0", p.pos(flush.Pos()), "negative window sends nothing", "n is not clamped at 0: a negative window (after a SETTINGS decrease) yields a negative slice bound")
				// what is written with the request's Ctx held is a run of bounded length, whatever the windows allow
				runOK := false
				if v, okc := p.pkgConst("sendRun"); okc && v >= 16384 && v <= 1<<20 && b["sendRun"] {
					runOK = true
				}
				r.check(runOK, "n <= a constant run length", p.pos(flush.Pos()), fmt.Sprintf("%s <= sendRun, a constant between 16 KiB and 1 MiB", n),
					fmt.Sprintf("the client flushes %s[:%s] with the request's Ctx held and %s is bounded by the flow-control windows only (known bounds: %v): a window of megabytes against a server that reads slowly keeps the Ctx for longer than the writeGrace a waiter allows the write in progress, and a WINDOW_UPDATE arriving meanwhile costs the connection", src, n, n, sortedKeys(b)))
				for _, w := range []struct{ owner, field, expr string }{{"pendingBody", "window", "pb.window"}, {"Conn", "connWindow", "c.connWindow"}} {
					found := false
					for _, s := range loop.Body.List {
						if as, ok := s.(*ast.AssignStmt); ok && len(as.Lhs) == 1 && p.isFieldSel(as.Lhs[0], w.owner, w.field) && as.Tok == token.SUB_ASSIGN && p.ubKey(as.Rhs[0]) == n {
							found = true
						}
					}
					r.check(found, "debit "+w.expr, p.pos(loop.Pos()), fmt.Sprintf("%s -= %s unconditionally", w.expr, n), fmt.Sprintf("the client does not debit %s by the %s bytes it is about to send", w.expr, n))
				}
				// lock region: Lock before the bound computation, Unlock after the debits, at top level of the loop body
				lockIdx, unlockIdx, debitIdx, firstBound := -1, -1, -1, -1
				for i, s := range loop.Body.List {
					if es, ok := s.(*ast.ExprStmt); ok {
						if c, ok := es.X.(*ast.CallExpr); ok {
							t := p.text(c.Fun)
							if t == "c.sendLck.Lock" && lockIdx < 0 {
								lockIdx = i
							}
							if t == "c.sendLck.Unlock" {
								unlockIdx = i
							}
						}
					}
					if as, ok := s.(*ast.AssignStmt); ok && len(as.Lhs) == 1 {
						if p.isFieldSel(as.Lhs[0], "Conn", "connWindow") || p.isFieldSel(as.Lhs[0], "pendingBody", "window") {
							debitIdx = i
						}
						if id, ok := as.Lhs[0].(*ast.Ident); ok && id.Name == n && firstBound < 0 {
							firstBound = i
						}
					}
				}
				r.check(lockIdx >= 0 && lockIdx < firstBound && debitIdx > firstBound && unlockIdx > debitIdx, "bound and debit under sendLck", p.pos(loop.Pos()), "Lock < compute n < debit < Unlock",
					fmt.Sprintf("the window reads, the computation of %s and the debits are not all between c.sendLck.Lock() and Unlock() (stmt indices lock=%d first-bound=%d debit=%d unlock=%d): the read loop grows the windows concurrently", n, lockIdx, firstBound, debitIdx, unlockIdx))
			}
		}
	}
	wd := p.decl("(*Conn).writeData")
	if wd == nil {
		r.undecided("writeData", "?", "(*Conn).writeData no longer resolves")
		return
	}
	r.fn("(*Conn).writeData")
	pm := p.pmFor(wd)
	var loop *ast.ForStmt
	var set *ast.CallExpr
	inspectCalls(wd.Body, func(c *ast.CallExpr) {
		if p.calleeOf(c) == "(*Data).SetData" {
			if f := innermostFor(pm, c); f != nil {
				loop, set = f, c
			}
		}
	})
	if loop == nil {
		r.bad("frame loop", p.pos(wd.Pos()), "writeData no longer cuts the body into frames in a loop")
		return
	}
	// step's bound before the loop
	u := ubState{}
	p.ubWalk(wd.Body.List, u, loop)
	se, ok := ast.Unparen(set.Args[0]).(*ast.SliceExpr)
	if !ok || se.Low == nil || se.High == nil {
		r.undecided("frame slice", p.pos(set.Pos()), "frame payload is not body[lo:hi]")
		return
	}
	length := p.linOf(se.High, nil).add(p.linOf(se.Low, nil), -1)
	stepName := ""
	for t, c := range length.T {
		if c == 1 && len(length.T) == 1 && length.C == 0 {
			stepName = t
		}
	}
	r.check(stepName != "", "frame length is step", p.pos(set.Pos()), "payload length = "+length.String(), "the DATA frame payload length is "+length.String()+", not a single step variable")
	// step initialised from the peer's MAX_FRAME_SIZE and re-defaulted when out of range
	fromSetting, fallback := false, false
	for _, s := range wd.Body.List {
		if s.Pos() >= loop.Pos() {
			break
		}
		if as, ok := s.(*ast.AssignStmt); ok && len(as.Lhs) == 1 && p.text(as.Lhs[0]) == stepName {
			if strings.Contains(p.text(as.Rhs[0]), "c.maxFrameSize") {
				fromSetting = true
			}
		}
		if ifs, ok := s.(*ast.IfStmt); ok {
			t := p.text(ifs.Cond)
			if strings.Contains(t, stepName+" <= 0") && strings.Contains(t, stepName+" > ") && len(ifs.Body.List) == 1 {
				if as, ok := ifs.Body.List[0].(*ast.AssignStmt); ok && p.text(as.Lhs[0]) == stepName {
					if v, ok := p.intConst(p.stripConvAST(as.Rhs[0])); ok && v == 1<<14 {
						fallback = true
					}
				}
			}
		}
	}
	r.check(fromSetting, "step from peer MAX_FRAME_SIZE", p.pos(wd.Pos()), "step := atomic load of c.maxFrameSize", "the frame size is no longer taken from the peer's SETTINGS_MAX_FRAME_SIZE")
	r.check(fallback, "step fallback", p.pos(wd.Pos()), "out-of-range step falls back to 2^14", "an out-of-range frame size no longer falls back to 2^14")
	// inside the loop step only ever shrinks to the tail
	ub := ubState{}
	p.ubWalk(loop.Body.List, ub, set)
	shrinkOnly := true
	ast.Inspect(loop.Body, func(n ast.Node) bool {
		if as, ok := n.(*ast.AssignStmt); ok {
			for _, l := range as.Lhs {
				if p.text(l) == stepName {
					tail := false
					for k := range ub[stepName] {
						if strings.HasPrefix(k, "tail:") {
							tail = true
						}
					}
					if !tail {
						shrinkOnly = false
					}
				}
			}
		}
		return true
	})
	r.check(shrinkOnly, "step only shrinks to the tail", p.pos(loop.Pos()), "in-loop assignment is the tail idiom", "inside the frame loop the step is reassigned by something other than the tail idiom `if i+step >= len { step = len - i }`: a frame may exceed the peer's MAX_FRAME_SIZE")
	// post statement advances by step
	adv := false
	if as, ok := loop.Post.(*ast.AssignStmt); ok && as.Tok == token.ADD_ASSIGN && p.text(as.Rhs[0]) == stepName {
		adv = true
	}
	r.check(adv, "cursor advances by step", p.pos(loop.Pos()), "i += step", "the frame loop no longer advances the body cursor by the frame length: bytes are skipped or sent twice")
}

// ---------------------------------------------------------------- window writers

// isRefund: the store adds to the field exactly the amount a debit in the same
// function took from it, and it sits on the path where taking the request's
// Ctx failed, i.e. where the debited bytes are not written.
func (p *Prog) isRefund(st *ssa.Store, owner, field string) bool {
	b, ok := stripConv(st.Val).(*ssa.BinOp)
	if !ok || b.Op != token.ADD {
		return false
	}
	ld := func(v ssa.Value) bool {
		_, o, n, ok := p.loadOfField(stripConv(v))
		return ok && o == owner && n == field
	}
	amount := b.Y
	if !ld(b.X) {
		if !ld(b.Y) {
			return false
		}
		amount = b.X
	}
	amount = stripConv(amount)
	debited := false
	for _, blk := range st.Parent().Blocks {
		for _, in := range blk.Instrs {
			s2, ok := in.(*ssa.Store)
			if !ok || s2 == st {
				continue
			}
			if !p.fieldAddrIs(s2.Addr, owner, field) {
				continue
			}
			if d, ok := stripConv(s2.Val).(*ssa.BinOp); ok && d.Op == token.SUB && ld(d.X) && stripConv(d.Y) == amount && s2.Block().Dominates(st.Block()) {
				debited = true
			}
		}
	}
	return debited && p.hasFact(st, "acquireFor", false)
}

func ruleWindowWriters(p *Prog, r *Out) {
	type wf struct{ owner, field string }
	fields := []wf{{"serverConn", "clientWindow"}, {"Stream", "window"}, {"Conn", "connWindow"}, {"Conn", "streamWindow"}, {"pendingBody", "window"}}
	// function -> allowed kind(s)
	allowed := map[string]map[string]string{
		"serverConn.clientWindow": {"(*serverConn).Serve": "init", "(*serverConn).handleStreams": "credit", "(*serverConn).sendData": "debit"},
		"Stream.window":           {"NewStream": "init", "(*Stream).SetWindow": "init", "(*Stream).IncrWindow": "credit", "(*serverConn).handleStreams": "credit", "(*serverConn).sendData": "debit", "(*serverConn).handleFrame": "credit"},
		"Conn.connWindow":         {"NewConn": "init", "(*Conn).addWindow": "credit", "(*Conn).sendPending": "debit|refund"},
		"Conn.streamWindow":       {"NewConn": "init", "(*Conn).doHandshake": "init", "(*Conn).applyInitialWindow": "init"},
		"pendingBody.window":      {"(*Conn).writeRequest": "init", "(*Conn).applyInitialWindow": "credit", "(*Conn).addWindow": "credit", "(*Conn).sendPending": "debit"},
	}
	refunded := map[string]bool{}
	defer func() {
		r.check(refunded["Conn.connWindow"], "connection window debited for bytes that are not written is given back", "conn.go", "refund on the path where the request's Ctx could not be taken", "(*Conn).sendPending debits the connection send window before it knows the bytes can be written and no longer gives it back when they cannot: every request taken back in that gap shrinks what all later streams may send")
	}()
	for _, w := range fields {
		fq := w.owner + "." + w.field
		for _, st := range p.storesTo(w.owner, w.field) {
			fn := p.fname(st.Fn)
			if st.Fn.Parent() != nil {
				fn = p.fname(st.Fn.Parent())
			}
			r.fn(fn)
			kind := "init"
			if b, ok := stripConv(st.Store.Val).(*ssa.BinOp); ok {
				// is one operand a load of the same field?
				ld := func(v ssa.Value) bool {
					_, o, n, ok := p.loadOfField(stripConv(v))
					return ok && o == w.owner && n == w.field
				}
				switch {
				case b.Op == token.SUB && ld(b.X):
					kind = "debit"
				case b.Op == token.ADD && (ld(b.X) || ld(b.Y)):
					kind = "credit"
				default:
					kind = "other(" + b.Op.String() + ")"
				}
			}
			want, ok := allowed[fq][fn]
			// a refund gives back exactly what the same function debited, on
			// the path where the bytes turned out not to be written
			if kind == "credit" && strings.Contains(want, "refund") && p.isRefund(st.Store, w.owner, w.field) {
				kind = "refund"
				refunded[fq] = true
			}
			key := fn + " stores " + fq + " (" + kind + ")"
			inTable := false
			for _, k := range strings.Split(want, "|") {
				if k == kind {
					inTable = true
				}
			}
			r.check(ok && inTable, key, p.ipos(st.Store), "audited "+kind+" site",
				fmt.Sprintf("%s writes %s as a %s; the audited writer table allows %q there. An unaudited write to a send window breaks the 'never overspent' induction the chunk-bound rules rest on", fn, fq, kind, want))
		}
	}
	// the atomic credit on Stream.window
	for _, cs := range p.callsTo("atomic.AddInt64") {
		if len(cs.Common.Args) == 2 && p.fieldAddrIs(cs.Common.Args[0], "Stream", "window") {
			fn := p.fname(cs.Fn)
			r.check(fn == "(*serverConn).handleFrame", fn+" atomic credit Stream.window", p.ipos(cs.Instr), "stream WINDOW_UPDATE credit", fn+" adds to Stream.window atomically outside the audited WINDOW_UPDATE handler")
		}
	}
}

// ---------------------------------------------------------------- initial window delta

func ruleInitialWindowDelta(p *Prog, r *Out) {
	// server
	if fd := p.decl("(*serverConn).handleStreams"); fd != nil {
		r.fn("(*serverConn).handleStreams")
		pm := p.pmFor(fd)
		var deltaAs *ast.AssignStmt
		ast.Inspect(fd.Body, func(n ast.Node) bool {
			if as, ok := n.(*ast.AssignStmt); ok && len(as.Lhs) == 1 && p.text(as.Lhs[0]) == "delta" && as.Tok == token.DEFINE {
				deltaAs = as
			}
			return true
		})
		if deltaAs == nil {
			r.bad("server delta", p.pos(fd.Pos()), "the stream loop no longer computes a SETTINGS_INITIAL_WINDOW_SIZE delta")
		} else {
			l := p.linOf(deltaAs.Rhs[0], nil)
			r.check(l.eq(Lin{T: map[string]int64{"st.windowSize": 1, "curInitialWindow": -1}}), "server delta = new - remembered", p.pos(deltaAs.Pos()), l.String(),
				fmt.Sprintf("the server computes the window delta as %s; RFC 7540 s6.9.2 requires new - old", l))
			under := false
			for _, g := range p.knownFacts(pm, deltaAs) {
				if g.Val && p.isFieldSel(g.Cond, "Settings", "hasWindowSize") {
					under = true
				}
			}
			r.check(under, "server delta under presence marker", p.pos(deltaAs.Pos()), "applied only when INITIAL_WINDOW_SIZE was present", "the delta is applied even when the SETTINGS frame did not carry INITIAL_WINDOW_SIZE")
			blk, _ := pm[deltaAs].(*ast.BlockStmt)
			remembered, applied := false, false
			if blk != nil {
				i := stmtIndexIn(blk.List, deltaAs)
				for _, s := range blk.List[i+1:] {
					if as, ok := s.(*ast.AssignStmt); ok && len(as.Lhs) == 1 && p.text(as.Lhs[0]) == "curInitialWindow" && p.ubKey(as.Rhs[0]) == "st.windowSize" {
						remembered = true
					}
					if rs, ok := s.(*ast.RangeStmt); ok && p.text(rs.X) == "strms" {
						for _, b := range rs.Body.List {
							if as, ok := b.(*ast.AssignStmt); ok && as.Tok == token.ADD_ASSIGN && len(as.Lhs) == 1 && p.isFieldSel(as.Lhs[0], "Stream", "window") && p.text(as.Rhs[0]) == "delta" {
								applied = true
							}
						}
					}
				}
			}
			r.check(remembered, "server remembers new value", p.pos(deltaAs.Pos()), "curInitialWindow = new", "the remembered initial window is not updated after the delta is computed: the next change is applied against a stale base")
			r.check(applied, "server applies delta to every stream", p.pos(deltaAs.Pos()), "for s in strms: s.window += delta", "the delta is not added to every open stream's send window")
		}
		// NewStream uses the remembered value
		usesCur := false
		inspectCalls(fd.Body, func(c *ast.CallExpr) {
			if p.calleeOf(c) == "NewStream" && len(c.Args) == 2 && p.text(c.Args[1]) == "curInitialWindow" {
				usesCur = true
			}
		})
		r.check(usesCur, "new streams start at the remembered value", p.pos(fd.Pos()), "NewStream(id, curInitialWindow)", "new streams no longer start with the peer's current SETTINGS_INITIAL_WINDOW_SIZE")
	} else {
		r.undecided("server", "?", "handleStreams no longer resolves")
	}
	// client
	fd := p.decl("(*Conn).applyInitialWindow")
	if fd == nil {
		r.undecided("client", "?", "(*Conn).applyInitialWindow no longer resolves")
		return
	}
	r.fn("(*Conn).applyInitialWindow")
	lock, unlock, deltaIdx, remIdx, applyIdx, guardIdx := -1, -1, -1, -1, -1, -1
	var dl Lin
	for i, s := range fd.Body.List {
		switch x := s.(type) {
		case *ast.ExprStmt:
			if c, ok := x.X.(*ast.CallExpr); ok {
				if p.text(c.Fun) == "c.sendLck.Lock" {
					lock = i
				}
				if p.text(c.Fun) == "c.sendLck.Unlock" {
					unlock = i
				}
			}
		case *ast.AssignStmt:
			if len(x.Lhs) == 1 && p.text(x.Lhs[0]) == "delta" {
				deltaIdx = i
				dl = p.linOf(x.Rhs[0], nil)
			}
			if len(x.Lhs) == 1 && p.isFieldSel(x.Lhs[0], "Conn", "streamWindow") && p.text(x.Rhs[0]) == "size" {
				remIdx = i
			}
		case *ast.RangeStmt:
			if p.text(x.X) == "c.pending" {
				for _, b := range x.Body.List {
					if as, ok := b.(*ast.AssignStmt); ok && as.Tok == token.ADD_ASSIGN && p.isFieldSel(as.Lhs[0], "pendingBody", "window") && (p.text(as.Rhs[0]) == "delta" || squash(p.text(as.Rhs[0])) == "int32(delta)") {
						applyIdx = i
					}
					// the refusal: a window that would pass 2^31-1, found before anything is changed
					if ifs, ok := b.(*ast.IfStmt); ok {
						if c, okc := p.canonCmp(ifs.Cond, nil); okc && c.Op == "le" && c.L.C == 1<<31 && len(c.L.T) == 2 && c.L.T["delta"] == -1 {
							if res := firstReturn(ifs.Body); len(res) == 1 {
								if cl, code, okE := p.errorCall(res[0]); okE && cl == "GoAway" && code == 3 {
									guardIdx = i
								}
							}
						}
					}
				}
			}
		}
	}
	r.check(deltaIdx >= 0 && dl.eq(Lin{T: map[string]int64{"size": 1, "c.streamWindow": -1}}), "client delta = new - remembered", p.pos(fd.Pos()), dl.String(), fmt.Sprintf("the client computes the window delta as %s; RFC 7540 s6.9.2 requires new - old", dl))
	r.check(remIdx > deltaIdx && deltaIdx >= 0, "client remembers new value", p.pos(fd.Pos()), "streamWindow = size after delta", "c.streamWindow is not set to the new size after the delta is computed")
	r.check(applyIdx > deltaIdx && deltaIdx >= 0, "client applies delta to every pending body", p.pos(fd.Pos()), "pb.window += delta", "the delta is not added to every stream still sending")
	r.check(guardIdx > deltaIdx && guardIdx < remIdx && guardIdx < applyIdx, "client refuses a change that takes a stream window past 2^31-1, before it changes anything", p.pos(fd.Pos()), "for every pending body: window + delta > 2^31-1 -> FLOW_CONTROL_ERROR connection error, ahead of the stores", "applyInitialWindow no longer refuses, before anything is stored, a SETTINGS_INITIAL_WINDOW_SIZE that takes the send window of an open stream past 2^31-1 (RFC 7540 s6.9.2): the window wraps to a negative value, the frame is acknowledged, and the body on that stream waits for ever")
	r.check(lock >= 0 && lock < deltaIdx && unlock > applyIdx && unlock > remIdx, "client delta under sendLck", p.pos(fd.Pos()), "Lock < delta, store, apply < Unlock", "the delta computation and its application are not all under c.sendLck")
	// called only under the presence marker
	for _, f := range p.Files {
		pm := p.parentMaps()[f]
		inspectCalls(f, func(c *ast.CallExpr) {
			if p.calleeOf(c) != "(*Conn).applyInitialWindow" {
				return
			}
			under := false
			for _, g := range p.knownFacts(pm, c) {
				if g.Val && p.isFieldSel(g.Cond, "Settings", "hasWindowSize") {
					under = true
				}
			}
			r.check(under, "client delta under presence marker", p.pos(c.Pos()), "called only when INITIAL_WINDOW_SIZE was present", "applyInitialWindow is called for a SETTINGS frame that may not carry INITIAL_WINDOW_SIZE: open streams are reset to the default window")
		})
	}
}

// ---------------------------------------------------------------- credit then flush

func ruleCreditThenFlush(p *Prog, r *Out) {
	// server: in the stream loop's stream-0 switch, each case that credits is followed by flushStreams
	if fd := p.decl("(*serverConn).handleStreams"); fd != nil {
		r.fn("(*serverConn).handleStreams")
		ast.Inspect(fd.Body, func(n ast.Node) bool {
			cc, ok := n.(*ast.CaseClause)
			if !ok {
				return true
			}
			credit := ""
			var creditPos token.Pos
			ast.Inspect(cc, func(m ast.Node) bool {
				if as, ok := m.(*ast.AssignStmt); ok && as.Tok == token.ADD_ASSIGN && len(as.Lhs) == 1 {
					if p.isFieldSel(as.Lhs[0], "serverConn", "clientWindow") {
						credit, creditPos = "connection window", as.Pos()
					}
					if p.isFieldSel(as.Lhs[0], "Stream", "window") {
						credit, creditPos = "stream windows (SETTINGS delta)", as.Pos()
					}
				}
				return true
			})
			if credit == "" {
				return true
			}
			flush := false
			inspectCalls(cc, func(c *ast.CallExpr) {
				if p.calleeOf(c) == "(*serverConn).flushStreams" && c.Pos() > creditPos {
					flush = true
				}
			})
			r.check(flush, "server flush after "+credit, p.pos(creditPos), "flushStreams follows the credit", "the server grows the "+credit+" but does not then try to resume blocked responses (flushStreams): a response waiting for window stays blocked until some unrelated frame arrives")
			return true
		})
		// the resume branch for stream-level credit
		resume := false
		ast.Inspect(fd.Body, func(n ast.Node) bool {
			if ifs, ok := n.(*ast.IfStmt); ok {
				t := p.text(ifs.Cond)
				if strings.Contains(t, "strm.responded") && strings.Contains(t, "!strm.handlerRunning") && strings.Contains(t, "hasMoreToSend()") {
					inspectCalls(ifs.Body, func(c *ast.CallExpr) {
						if p.calleeOf(c) == "(*serverConn).sendData" {
							resume = true
						}
					})
				}
			}
			return true
		})
		r.check(resume, "server resume branch", p.pos(fd.Pos()), "responded && !handlerRunning && hasMoreToSend -> sendData", "the stream loop no longer resumes a blocked response after a frame on that stream (stream-level WINDOW_UPDATE)")
	} else {
		r.undecided("server", "?", "handleStreams no longer resolves")
	}
	// client
	for _, name := range []string{"(*Conn).addWindow", "(*Conn).applyInitialWindow"} {
		fd := p.decl(name)
		if fd == nil {
			r.undecided(name, "?", "no longer resolves")
			continue
		}
		r.fn(name)
		sig := false
		for _, s := range fd.Body.List {
			if es, ok := s.(*ast.ExprStmt); ok {
				if c, ok := es.X.(*ast.CallExpr); ok && p.calleeOf(c) == "(*Conn).signalWindow" {
					sig = true
				}
			}
		}
		r.check(sig, name+" signals the write loop", p.pos(fd.Pos()), "signalWindow unconditionally", name+" grows a send window without waking the write loop: a body blocked on flow control is not resumed")
	}
	if fd := p.decl("(*Conn).runWriteLoop"); fd != nil {
		r.fn("(*Conn).runWriteLoop")
		okk := false
		ast.Inspect(fd.Body, func(n ast.Node) bool {
			if cc, ok := n.(*ast.CommClause); ok && cc.Comm != nil && strings.Contains(p.text(cc.Comm), "c.winCh") {
				inspectCalls(cc, func(c *ast.CallExpr) {
					if p.calleeOf(c) == "(*Conn).flushPending" {
						okk = true
					}
				})
			}
			return true
		})
		r.check(okk, "client write loop flushes on signal", p.pos(fd.Pos()), "case <-c.winCh: flushPending", "the write loop no longer answers a window signal by flushing pending bodies")
	} else {
		r.undecided("runWriteLoop", "?", "no longer resolves")
	}
	if fd := p.decl("(*Conn).signalWindow"); fd != nil {
		okk := false
		ast.Inspect(fd.Body, func(n ast.Node) bool {
			if ss, ok := n.(*ast.SendStmt); ok && p.isFieldSel(ss.Chan, "Conn", "winCh") {
				okk = true
			}
			return true
		})
		r.check(okk, "signalWindow sends on winCh", p.pos(fd.Pos()), "non-blocking send on winCh", "signalWindow no longer sends on c.winCh")
	}
}

// ---------------------------------------------------------------- OPA rules

func (p *Prog) streamLoopRegion() (fn *ssa.Function, fr ssa.Value, entry, head *ssa.BasicBlock) {
	fn = p.ssaFunc("(*serverConn).handleStreams")
	if fn == nil {
		return
	}
	for _, b := range fn.Blocks {
		for _, in := range b.Instrs {
			if ex, ok := in.(*ssa.Extract); ok && p.isFrameHeaderPtr(ex.Type()) && p.recvFromReader(ex) {
				fr, entry = ex, b
			}
		}
	}
	if entry != nil {
		head = loopHeadOf(entry)
	}
	return
}

func (p *Prog) isCallTo(in ssa.Instruction, names ...string) bool {
	c, ok := in.(ssa.CallInstruction)
	if !ok {
		return false
	}
	n := p.calleeName(c.Common())
	for _, x := range names {
		if n == x {
			return true
		}
	}
	return false
}

// terminatesConn: writeGoAway, or writeError whose error argument is GoAway-class only.
func (p *Prog) terminatesConn(in ssa.Instruction) bool {
	if p.isCallTo(in, "(*serverConn).writeGoAway") {
		return true
	}
	if p.isCallTo(in, "(*serverConn).writeError") {
		c := in.(ssa.CallInstruction).Common()
		if len(c.Args) == 3 {
			cl := p.errClasses(c.Args[2], 4, map[ssa.Value]bool{})
			if len(cl) == 1 && cl["GoAway"] {
				return true
			}
		}
	}
	return false
}

func (p *Prog) goAwayReturn(r *ssa.Return) bool {
	if len(r.Results) == 0 {
		return false
	}
	cl := p.errClasses(p.resolveSpill(r, len(r.Results)-1), 4, map[ssa.Value]bool{})
	if cl["Reset"] || cl["Foreign"] {
		return false
	}
	for c := range cl {
		if strings.HasPrefix(c, "Param#") {
			// the function's own argument: unknown without its caller
			return false
		}
	}
	if cl["Nil"] {
		// acceptable only when the value is known non-nil here (return err under err != nil)
		v := p.resolveSpill(r, len(r.Results)-1)
		for _, f := range p.factsAt(r) {
			if b, ok := f.Cond.(*ssa.BinOp); ok {
				if (b.X == v || b.Y == v) && ((b.Op == token.NEQ && f.Val) || (b.Op == token.EQL && !f.Val)) {
					return cl["GoAway"]
				}
			}
		}
		return false
	}
	return cl["GoAway"]
}

func (r *Out) reportOPA(p *Prog, where string, vs []opaViolation, what string) {
	for _, v := range vs {
		r.bad(where+" "+v.Key, v.Pos, fmt.Sprintf("%s: the path %s with the frame possibly %s %s", where, v.Exit, kindsString(v.K), what), v.Path...)
	}
}

func ruleHdrMustDecode(p *Prog, r *Out) {
	fn, fr, entry, head := p.streamLoopRegion()
	if fn == nil || fr == nil || head == nil {
		r.undecided("stream loop", "?", "the frame receive region of handleStreams was not found")
		return
	}
	r.fn("(*serverConn).handleStreams", "(*serverConn).handleFrame", "(*serverConn).handleHeaderFrame", "(*serverConn).discardFrame")
	kinds := uint16(1<<1 | 1<<9)
	what := "has not fed its header block to the HPACK decoder and the connection continues: every later header block decodes against a stale dynamic table"
	vs := p.runOPA(opaSpec{fn: fn, entry: entry, fr: fr, kinds: kinds, loopHead: head,
		// discardFrame is for frames whose stream is gone; its own slice is judged below
		discharge: func(in ssa.Instruction) bool {
			return p.isCallTo(in, "(*serverConn).handleFrame", "(*serverConn).discardFrame")
		},
		terminate: p.terminatesConn,
		returnOK:  func(*ssa.Return) bool { return true },
	})
	r.reportOPA(p, "stream loop", vs, what)
	if len(vs) == 0 {
		r.ok("stream loop", p.pos(fn.Pos()), "every next-frame exit has decoded or terminated")
	}
	// callee slices
	for _, sl := range []struct{ name, discharge string }{
		{"(*serverConn).handleFrame", "(*serverConn).handleHeaderFrame"},
		{"(*serverConn).handleHeaderFrame", "(*HPACK).nextField"},
		// skipFields is a decode loop of its own (block-remainder-decoded,
		// no-stream-error-inside-decode-loop)
		{"(*serverConn).discardFrame", "(*serverConn).skipFields"},
	} {
		f := p.ssaFunc(sl.name)
		if f == nil {
			r.undecided(sl.name, "?", "no longer resolves")
			continue
		}
		var frp ssa.Value
		for _, pa := range f.Params {
			if p.isFrameHeaderPtr(pa.Type()) {
				frp = pa
			}
		}
		d := sl.discharge
		// in handleHeaderFrame reaching the decode loop's head discharges: the
		// loop itself is judged by no-stream-error-inside-decode-loop
		var loopHd *ssa.BasicBlock
		if sl.name == "(*serverConn).handleHeaderFrame" {
			for _, b := range f.Blocks {
				for _, in := range b.Instrs {
					if p.isCallTo(in, d) {
						loopHd = loopHeadOf(b)
					}
				}
			}
		}
		keep := p.runOPA(opaSpec{fn: f, fr: frp, kinds: kinds,
			discharge: func(in ssa.Instruction) bool {
				if p.isCallTo(in, d) {
					return true
				}
				// a frame turned away before its first field: rejectBlock / rejectBlockFrom
				// decode the whole fragment (block-remainder-decoded holds them to that)
				if sl.name == "(*serverConn).handleHeaderFrame" && p.isCallTo(in, "(*serverConn).rejectBlock", "(*serverConn).rejectBlockFrom") {
					ok, _ := p.rejectBlockOK()
					return ok
				}
				return false
			},
			terminate:      p.terminatesConn,
			returnOK:       p.goAwayReturn,
			dischargeBlock: func(b *ssa.BasicBlock) bool { return loopHd != nil && b == loopHd },
		})
		r.reportOPA(p, sl.name, keep, what)
		if len(keep) == 0 {
			r.ok(sl.name+" header slice", p.pos(f.Pos()), "no stream-scoped return before "+sl.discharge)
		}
	}
}

// recvAccounting: the functions that account received octets against owner's
// connection receive window: those that store owner.currentWindow as old - x,
// and those that call one of them unconditionally (top-level statement).
func (p *Prog) recvAccounting(owner string) map[string]bool {
	out := map[string]bool{}
	for _, st := range p.storesTo(owner, "currentWindow") {
		if b, ok := stripConv(st.Store.Val).(*ssa.BinOp); ok && b.Op == token.SUB {
			if _, o, n, ok := p.loadOfField(stripConv(b.X)); ok && o == owner && n == "currentWindow" {
				out[p.fname(st.Fn)] = true
			}
		}
	}
	// wrappers: a function in which a call of an accounting function dominates
	// every return, except returns taken because the amount is <= 0
	for round := 0; round < 2; round++ {
		for _, f := range p.allFuncs() {
			name := p.fname(f)
			if out[name] || f.Pkg != p.SPkg {
				continue
			}
			var calls []ssa.Instruction
			for _, cs := range p.callsIn(f) {
				if _, isCall := cs.Instr.(*ssa.Call); isCall && out[cs.Callee] {
					calls = append(calls, cs.Instr)
				}
			}
			if len(calls) == 0 {
				continue
			}
			all := true
			for _, b := range f.Blocks {
				if b == f.Recover {
					continue
				}
				for _, in := range b.Instrs {
					ret, ok := in.(*ssa.Return)
					if !ok {
						continue
					}
					covered := false
					for _, c := range calls {
						if instrDominates(c, ret) {
							covered = true
						}
					}
					if !covered {
						for _, ft := range p.factsAt(ret) {
							d := p.vdescN(ft.Cond, 2)
							if ft.Val && strings.HasSuffix(d, " <= 0)") {
								if _, isParam := ft.Cond.(*ssa.BinOp).X.(*ssa.Parameter); isParam {
									covered = true
								}
							}
						}
					}
					if !covered {
						all = false
					}
				}
			}
			if all {
				out[name] = true
			}
		}
	}
	return out
}

func ruleDataMustCredit(p *Prog, r *Out) {
	kinds := uint16(1 << 0)
	srvAcc := p.recvAccounting("serverConn")
	cliAcc := p.recvAccounting("Conn")
	isAcc := func(m map[string]bool) func(ssa.Instruction) bool {
		return func(in ssa.Instruction) bool {
			c, ok := in.(ssa.CallInstruction)
			return ok && m[p.calleeName(c.Common())]
		}
	}
	what := "has not been accounted against the connection receive window: those bytes are never credited back, and after enough of them the peer's connection window is exhausted for good"
	fn, fr, entry, head := p.streamLoopRegion()
	if fn == nil || fr == nil || head == nil {
		r.undecided("stream loop", "?", "the frame receive region of handleStreams was not found")
	} else {
		r.fn("(*serverConn).handleStreams", "(*serverConn).handleFrame")
		vs := p.runOPA(opaSpec{fn: fn, entry: entry, fr: fr, kinds: kinds, loopHead: head,
			discharge: func(in ssa.Instruction) bool {
				return p.isCallTo(in, "(*serverConn).handleFrame", "(*serverConn).discardFrame") || isAcc(srvAcc)(in)
			},
			terminate: p.terminatesConn,
			returnOK:  func(*ssa.Return) bool { return true },
		})
		r.reportOPA(p, "server stream loop", vs, what)
		if len(vs) == 0 {
			r.ok("server stream loop", p.pos(fn.Pos()), "every next-frame exit has accounted the DATA frame or terminated")
		}
		if f := p.ssaFunc("(*serverConn).handleFrame"); f != nil {
			var frp ssa.Value
			for _, pa := range f.Params {
				if p.isFrameHeaderPtr(pa.Type()) {
					frp = pa
				}
			}
			vs := p.runOPA(opaSpec{fn: f, fr: frp, kinds: kinds,
				discharge: isAcc(srvAcc),
				terminate: p.terminatesConn,
				returnOK:  p.goAwayReturn,
			})
			r.reportOPA(p, "(*serverConn).handleFrame", vs, what)
			if len(vs) == 0 {
				r.ok("(*serverConn).handleFrame DATA slice", p.pos(f.Pos()), "no stream-scoped return before consumeRecvWindow")
			}
		}
		// frames whose stream is gone
		if f := p.ssaFunc("(*serverConn).discardFrame"); f != nil {
			var frp ssa.Value
			for _, pa := range f.Params {
				if p.isFrameHeaderPtr(pa.Type()) {
					frp = pa
				}
			}
			vs := p.runOPA(opaSpec{fn: f, fr: frp, kinds: kinds,
				discharge: isAcc(srvAcc),
				terminate: p.terminatesConn,
				returnOK:  func(*ssa.Return) bool { return false },
			})
			r.reportOPA(p, "(*serverConn).discardFrame", vs, what)
			if len(vs) == 0 {
				r.ok("(*serverConn).discardFrame DATA slice", p.pos(f.Pos()), "every return for a DATA frame has passed consumeConnRecvWindow")
			}
		} else {
			r.undecided("(*serverConn).discardFrame", "?", "no longer resolves")
		}
	}
	// client
	f := p.ssaFunc("(*Conn).dispatch")
	if f == nil {
		r.undecided("client dispatch", "?", "(*Conn).dispatch no longer resolves")
		return
	}
	r.fn("(*Conn).dispatch", "(*Conn).readStream")
	var frp ssa.Value
	for _, pa := range f.Params {
		if p.isFrameHeaderPtr(pa.Type()) {
			frp = pa
		}
	}
	// The debit sits either in readStream itself or, since the credit was
	// moved out from under the request's Ctx, in dispatch after readStream has
	// returned. readStream counts as accounting only if every DATA path through
	// it debits.
	var rsVs []opaViolation
	rsAccounts := false
	if rs := p.ssaFunc("(*Conn).readStream"); rs != nil {
		var rfr ssa.Value
		for _, pa := range rs.Params {
			if p.isFrameHeaderPtr(pa.Type()) {
				rfr = pa
			}
		}
		rsVs = p.runOPA(opaSpec{fn: rs, fr: rfr, kinds: kinds,
			discharge: func(in ssa.Instruction) bool {
				st, ok := in.(*ssa.Store)
				return (ok && p.fieldAddrIs(st.Addr, "Conn", "currentWindow")) || isAcc(cliAcc)(in)
			},
			returnOK: func(*ssa.Return) bool { return false },
		})
		rsAccounts = len(rsVs) == 0
	}
	vs := p.runOPA(opaSpec{fn: f, fr: frp, kinds: kinds,
		discharge: func(in ssa.Instruction) bool {
			if isAcc(cliAcc)(in) {
				return true
			}
			return rsAccounts && (p.isCallTo(in, "(*Conn).readStream") || p.forwardsTo(in, "(*Conn).readStream"))
		},
		returnOK: func(*ssa.Return) bool { return false },
	})
	r.reportOPA(p, "client dispatch", vs, what)
	if len(vs) == 0 {
		where := "dispatch"
		if rsAccounts {
			where = "readStream"
		}
		r.ok("client dispatch", p.pos(f.Pos()), "every return has accounted the DATA frame")
		r.ok("client DATA slice", p.pos(f.Pos()), "currentWindow debited on every DATA path (in "+where+")")
	}
}

// ---------------------------------------------------------------- receive refill

// frameLenAmount: is expression a (inside function fd) the received frame's
// length? Either fr.Len() itself, or an int parameter of fd that every call
// site fills with a frame length (followed up to three levels).
func (p *Prog) frameLenAmount(fd *ast.FuncDecl, a ast.Expr, depth int) bool {
	a = p.stripConvAST(a)
	if c, ok := a.(*ast.CallExpr); ok && p.calleeOf(c) == "(*FrameHeader).Len" {
		return true
	}
	id, ok := a.(*ast.Ident)
	if !ok || depth == 0 || fd == nil {
		return false
	}
	idx, k := -1, 0
	for _, f := range fd.Type.Params.List {
		for _, n := range f.Names {
			if n.Name == id.Name {
				idx = k
			}
			k++
		}
	}
	if idx < 0 {
		return false
	}
	name := declName(fd)
	sites := 0
	all := true
	for _, f := range p.Files {
		pm := p.parentMaps()[f]
		inspectCalls(f, func(c *ast.CallExpr) {
			if p.calleeOf(c) != name || idx >= len(c.Args) {
				return
			}
			sites++
			if !p.frameLenAmount(p.decl(enclosingFunc(pm, c)), c.Args[idx], depth-1) {
				all = false
			}
		})
	}
	return sites > 0 && all
}

func ruleRecvWindowRefill(p *Prog, r *Out) {
	emitters := map[string]bool{"(*serverConn).writeWindowUpdate": true, "(*Conn).updateWindow": true}
	for _, owner := range []string{"serverConn", "Conn"} {
		n := 0
		for _, f := range p.Files {
			pm := p.parentMaps()[f]
			ast.Inspect(f, func(x ast.Node) bool {
				as, ok := x.(*ast.AssignStmt)
				if !ok || len(as.Lhs) != 1 || !p.isFieldSel(as.Lhs[0], owner, "currentWindow") {
					return true
				}
				if as.Tok != token.SUB_ASSIGN {
					return true
				}
				n++
				fn := enclosingFunc(pm, as)
				fd := p.decl(fn)
				r.fn(fn)
				cur := p.text(as.Lhs[0])
				max := strings.TrimSuffix(cur, "currentWindow") + "maxWindow"
				r.check(p.frameLenAmount(fd, as.Rhs[0], 3), fn+" debits the frame length", p.pos(as.Pos()), cur+" -= frame length",
					fmt.Sprintf("%s debits %s by `%s`, which is not the received frame's length (fr.Len(), padding included, RFC 7540 s6.9.1) at every call site: the receiver's ledger and the sender's diverge", fn, cur, p.text(as.Rhs[0])))
				// the refill that follows in the same function
				subst := singleDefs(fd.Body)
				refill := false
				var refillIf *ast.IfStmt
				ast.Inspect(fd.Body, func(m ast.Node) bool {
					ifs, ok := m.(*ast.IfStmt)
					if !ok || ifs.Pos() < as.Pos() {
						return true
					}
					c, ok := p.canonCmp(ifs.Cond, subst)
					if !ok || c.Op != "le" {
						return true
					}
					if !(c.L.T[cur] == 1 && c.L.T[max+" / 2"] == -1 && c.L.C == 1) {
						return true
					}
					s2 := singleDefs(ifs.Body)
					for k, v := range subst {
						s2[k] = v
					}
					reset, send := false, false
					for _, st := range ifs.Body.List {
						if a2, ok := st.(*ast.AssignStmt); ok && len(a2.Lhs) == 1 && p.text(a2.Lhs[0]) == cur && p.text(a2.Rhs[0]) == max {
							reset = true
						}
					}
					inspectCalls(ifs.Body, func(cl *ast.CallExpr) {
						if emitters[p.calleeOf(cl)] && len(cl.Args) == 2 {
							if v, ok := p.intConst(cl.Args[0]); ok && v == 0 {
								if p.linOf(cl.Args[1], s2).eq(Lin{T: map[string]int64{max: 1, cur: -1}}) {
									send = true
								}
							}
						}
					})
					if reset && send {
						refill = true
						refillIf = ifs
					}
					return true
				})
				// nothing may leave the function between the debit and the refill test
				if refillIf != nil {
					early := ""
					ast.Inspect(fd.Body, func(m ast.Node) bool {
						if _, ok := m.(*ast.FuncLit); ok {
							return false
						}
						if rs, ok := m.(*ast.ReturnStmt); ok && rs.Pos() > as.Pos() && rs.Pos() < refillIf.Pos() {
							early = p.pos(rs.Pos())
						}
						return true
					})
					r.check(early == "", fn+" refill reached on every path", p.pos(as.Pos()), "no return between the debit and the refill test",
						fmt.Sprintf("%s can return (at %s) after debiting the connection receive counter and before the below-half refill test: frames that take that path (e.g. every DATA frame carrying END_STREAM) are debited but never trigger a refill, so a peer whose uploads all fit in one frame runs its connection window down to zero and stalls", fn, early))
				}
				r.check(refill, fn+" refills to max", p.pos(as.Pos()), "below max/2: WINDOW_UPDATE(0, max-current); current = max",
					fmt.Sprintf("%s: after the debit, below half the maximum the connection WINDOW_UPDATE is not exactly (max - current) with current then reset to max on the same path: the peer is granted more or less than the receiver books", fn))
				return true
			})
		}
		if n == 0 {
			r.bad(owner+" debits its receive window", "?", "no function debits "+owner+".currentWindow: received DATA is never accounted against the connection receive window")
		}
	}
	// stream-level credit equals the frame length
	found := map[string]bool{}
	for _, f := range p.Files {
		pm := p.parentMaps()[f]
		inspectCalls(f, func(c *ast.CallExpr) {
			name := p.calleeOf(c)
			if !emitters[name] || len(c.Args) != 2 {
				return
			}
			if _, isConst := p.intConst(c.Args[0]); isConst {
				return
			}
			fn := enclosingFunc(pm, c)
			role := "server"
			if strings.HasPrefix(name, "(*Conn)") {
				role = "client"
			}
			found[role] = true
			r.check(p.frameLenAmount(p.decl(fn), c.Args[1], 3), fn+" stream credit amount", p.pos(c.Pos()), "credit = frame length",
				fmt.Sprintf("%s credits the stream with `%s`, which is not the received frame's length at every call site", fn, p.text(c.Args[1])))
		})
	}
	for _, role := range []string{"server", "client"} {
		if !found[role] {
			r.bad(role+" stream credit amount", "?", "the "+role+" never returns stream-level credit")
		}
	}
}

func ruleIncrementPositive(p *Prog, r *Out) {
	for _, em := range []string{"(*serverConn).writeWindowUpdate", "(*Conn).updateWindow"} {
		for _, cs := range p.callsTo(em) {
			fn := p.fname(cs.Fn)
			args := cs.Common.Args
			if len(args) != 3 {
				continue
			}
			inc := args[2]
			stream := p.vdescN(args[1], 2)
			key := fn + " emits WINDOW_UPDATE(" + stream + ")"
			r.fn(fn)
			okk, why := false, ""
			if v, ok := constInt(inc); ok && v > 0 {
				okk, why = true, "constant"
			}
			d := p.vdescN(stripConv(inc), 4)
			for _, f := range p.factsAt(cs.Instr) {
				fd := p.vdescN(f.Cond, 4)
				// n <= 0 is false
				if !f.Val && fd == "("+d+" <= 0)" {
					okk, why = true, "guard n <= 0 returns"
				}
				if f.Val && (fd == "("+d+" > 0)" || fd == "("+d+" != 0)") {
					okk, why = true, "guard n > 0"
				}
				// max - current under current < max/2
				if f.Val && strings.Contains(fd, " < (") && strings.Contains(fd, "maxWindow") && strings.Contains(fd, "/ 2)") && strings.Contains(d, "maxWindow") && strings.Contains(d, " - ") {
					okk, why = true, "max - current under current < max/2"
				}
			}
			// stream-level credit conditional on the unpadded data length
			condOnData := false
			for _, f := range p.factsAt(cs.Instr) {
				if strings.Contains(p.vdescN(f.Cond, 4), "(*Data).Len(") {
					condOnData = true
				}
			}
			if condOnData && stream != "0" {
				r.bad(key+" conditional on data length", p.ipos(cs.Instr), fn+" returns stream-level credit only when the frame's unpadded data length is non-zero: a DATA frame that is all padding (or empty with padding) consumes the peer's stream window and is never credited back (RFC 7540 s6.9.1: the entire frame payload counts)")
				continue
			}
			r.check(okk, key, p.ipos(cs.Instr), "increment positive: "+why, fmt.Sprintf("%s emits a WINDOW_UPDATE whose increment `%s` is not shown positive by a dominating guard: an increment of 0 is a PROTOCOL_ERROR at the peer (RFC 7540 s6.9)", fn, d))
		}
	}
}

// forwardsTo: in is a static call of a package function whose entry block
// dominates a call of target with the caller's frame passed on, i.e. a
// forwarding helper (defer/cleanup wrapped around the real call).
func (p *Prog) forwardsTo(in ssa.Instruction, target string) bool {
	ci, ok := in.(ssa.CallInstruction)
	if !ok {
		return false
	}
	g := ci.Common().StaticCallee()
	if g == nil || g.Blocks == nil || g.Pkg != p.SPkg {
		return false
	}
	for _, c2 := range p.findCall(g, target) {
		// unconditional: the call's block post-dominance is approximated by "every return is reachable only through it"
		all := true
		for _, b := range g.Blocks {
			if b == g.Recover {
				continue // go/ssa's synthetic block for a recovered panic
			}
			for _, x := range b.Instrs {
				if ret, isRet := x.(*ssa.Return); isRet {
					if !instrDominates(c2.(ssa.Instruction), ret) {
						all = false
					}
				}
			}
		}
		if all {
			return true
		}
	}
	return false
}
