package main

// KSA — frame-kind set analysis on go/ssa.
//
// For every SSA value of type *FrameHeader, computes at each basic block the
// set K of frame types (bit i = type i, 0..9) the frame can have there. Forward
// may-analysis: branch conditions of the forms  fr.Type() == C,  != C  (also
// the if-chains a tagged switch lowers to; && and || are already separate
// branches in SSA), their negations, and the predicate method
// (*Stream).continuingHeaders refine K on the outgoing edges; anything else
// refines nothing. Interprocedural: a parameter's K is the union of the
// arguments' K over the static call sites of an unexported, never-address-taken
// function; Deserialize methods get the singleton of their receiver's Type().

import (
	"go/ast"
	"go/token"
	"go/types"
	"strings"

	"golang.org/x/tools/go/ssa"
)

const kAll = uint16(0x3ff)

type ksaResult struct {
	// in[fn][block index][value] = mask
	in     map[*ssa.Function][]map[ssa.Value]uint16
	paramK map[*ssa.Function]map[int]uint16
}

func kindsString(m uint16) string {
	if m == kAll {
		return "any"
	}
	s := ""
	for i := 0; i < 10; i++ {
		if m&(1<<uint(i)) != 0 {
			if s != "" {
				s += "|"
			}
			s += frameTypeNames[i]
		}
	}
	if s == "" {
		return "none(dead)"
	}
	return s
}

func (p *Prog) isFrameHeaderPtr(t types.Type) bool {
	pt, ok := t.(*types.Pointer)
	if !ok {
		return false
	}
	nt, ok := pt.Elem().(*types.Named)
	return ok && nt.Obj().Name() == "FrameHeader" && nt.Obj().Pkg() == p.Pkg
}

// typeCallOn: v is a call of (*FrameHeader).Type; returns the receiver.
func (p *Prog) typeCallOn(v ssa.Value) (ssa.Value, bool) {
	c, ok := v.(*ssa.Call)
	if !ok {
		return nil, false
	}
	if p.calleeName(c.Common()) == "(*FrameHeader).Type" && len(c.Call.Args) == 1 {
		return c.Call.Args[0], true
	}
	return nil, false
}

// refine returns the masks for the true and false edges of cond, for value fr.
func (p *Prog) ksaRefine(cond ssa.Value, fr ssa.Value, k uint16) (t, f uint16) {
	switch c := cond.(type) {
	case *ssa.UnOp:
		if c.Op == token.NOT {
			t, f = p.ksaRefine(c.X, fr, k)
			return f, t
		}
	case *ssa.BinOp:
		if c.Op == token.EQL || c.Op == token.NEQ {
			// err == nil / err != nil where (fr, err) come from one call of a
			// reader that returns a nil frame with every error: on the error
			// edge there is no frame.
			for _, pr := range [][2]ssa.Value{{c.X, c.Y}, {c.Y, c.X}} {
				if cn, ok := pr[1].(*ssa.Const); ok && cn.Value == nil {
					if ex, ok := pr[0].(*ssa.Extract); ok && ex.Index == 1 {
						if fe, ok := fr.(*ssa.Extract); ok && fe.Index == 0 && fe.Tuple == ex.Tuple {
							if call, ok := ex.Tuple.(*ssa.Call); ok && p.nilFrameOnError(call.Common().StaticCallee()) {
								if c.Op == token.EQL {
									return k, 0
								}
								return 0, k
							}
						}
					}
				}
			}
			x, y := c.X, c.Y
			if _, ok := x.(*ssa.Const); ok {
				x, y = y, x
			}
			// fr.Stream() == 0 on a frame received from serverConn.reader: only
			// the kinds the read loop forwards with stream id 0 are possible.
			if sc, ok := x.(*ssa.Call); ok && p.calleeName(sc.Common()) == "(*FrameHeader).Stream" && len(sc.Call.Args) == 1 && sc.Call.Args[0] == fr {
				if kv, ok := constInt(y); ok && kv == 0 && p.ksaZeroKinds != kAll && p.recvFromReader(fr) {
					if c.Op == token.EQL {
						return k & p.ksaZeroKinds, k
					}
					return k, k & p.ksaZeroKinds
				}
			}
			if recv, ok := p.typeCallOn(x); ok && recv == fr {
				if kv, ok := constInt(y); ok && kv >= 0 && kv <= 9 {
					bit := uint16(1) << uint(kv)
					if c.Op == token.EQL {
						return k & bit, k &^ bit
					}
					return k &^ bit, k & bit
				}
			}
		}
	case *ssa.Call:
		if p.calleeName(c.Common()) == "(*Stream).continuingHeaders" && len(c.Call.Args) == 2 && c.Call.Args[1] == fr {
			return k & (1 << 9), k
		}
	}
	return k, k
}

func (p *Prog) ksa() *ksaResult {
	if v, ok := p.memo["ksa"]; ok {
		return v.(*ksaResult)
	}
	p.ksaZeroKinds = kAll
	first := p.ksaCore()
	p.ksaZeroKinds = p.zeroStreamKinds(first)
	res := p.ksaCore()
	p.memo["ksa"] = res
	return res
}

func (p *Prog) ksaCore() *ksaResult {
	res := &ksaResult{in: map[*ssa.Function][]map[ssa.Value]uint16{}, paramK: map[*ssa.Function]map[int]uint16{}}
	funcs := p.allFuncs()
	// which functions may have their parameter sets derived from call sites
	addrTaken := map[*ssa.Function]bool{}
	for _, f := range funcs {
		for _, b := range f.Blocks {
			for _, in := range b.Instrs {
				var callee ssa.Value
				if ci, ok := in.(ssa.CallInstruction); ok {
					callee = ci.Common().Value
				}
				for _, op := range in.Operands(nil) {
					if op == nil || *op == nil {
						continue
					}
					if fn, ok := (*op).(*ssa.Function); ok && *op != callee {
						addrTaken[fn] = true
					}
					if mc, ok := (*op).(*ssa.MakeClosure); ok && *op != callee {
						if fn, ok := mc.Fn.(*ssa.Function); ok {
							addrTaken[fn] = true
						}
					}
				}
			}
		}
	}
	implKind := map[string]int64{}
	for _, fi := range p.frameImpls() {
		implKind["(*"+fi.Name+").Deserialize"] = fi.Kind
	}
	derivable := func(f *ssa.Function) bool {
		if addrTaken[f] || f.Parent() != nil {
			return false
		}
		if f.Object() != nil && f.Object().Exported() {
			return false
		}
		return true
	}
	// tracked values per function
	tracked := map[*ssa.Function][]ssa.Value{}
	for _, f := range funcs {
		var vs []ssa.Value
		for _, pa := range f.Params {
			if p.isFrameHeaderPtr(pa.Type()) {
				vs = append(vs, pa)
			}
		}
		for _, fv := range f.FreeVars {
			if p.isFrameHeaderPtr(fv.Type()) {
				vs = append(vs, fv)
			}
		}
		for _, b := range f.Blocks {
			for _, in := range b.Instrs {
				if v, ok := in.(ssa.Value); ok && p.isFrameHeaderPtr(v.Type()) {
					vs = append(vs, v)
				}
			}
		}
		tracked[f] = vs
	}
	hasCaller := map[*ssa.Function]bool{}
	for round := 0; round < 6; round++ {
		newParam := map[*ssa.Function]map[int]uint16{}
		for _, f := range funcs {
			vs := tracked[f]
			if len(vs) == 0 {
				continue
			}
			init := map[ssa.Value]uint16{}
			for _, v := range vs {
				init[v] = kAll
			}
			if k, ok := implKind[p.fname(f)]; ok && k >= 0 && k <= 9 {
				for _, pa := range f.Params {
					if p.isFrameHeaderPtr(pa.Type()) {
						init[pa] = 1 << uint(k)
					}
				}
			} else if derivable(f) && hasCaller[f] && round > 0 {
				for i, pa := range f.Params {
					if p.isFrameHeaderPtr(pa.Type()) {
						init[pa] = res.paramK[f][i]
					}
				}
			}
			in := make([]map[ssa.Value]uint16, len(f.Blocks))
			for i := range in {
				in[i] = map[ssa.Value]uint16{}
			}
			for v, m := range init {
				in[0][v] = m
			}
			reached := make([]bool, len(f.Blocks))
			reached[0] = true
			work := []*ssa.BasicBlock{f.Blocks[0]}
			for len(work) > 0 {
				b := work[0]
				work = work[1:]
				var ifc ssa.Value
				if n := len(b.Instrs); n > 0 {
					if iff, ok := b.Instrs[n-1].(*ssa.If); ok {
						ifc = iff.Cond
					}
				}
				for si, s := range b.Succs {
					changed := !reached[s.Index]
					reached[s.Index] = true
					for _, v := range vs {
						m := in[b.Index][v]
						if ifc != nil {
							t, fl := p.ksaRefine(ifc, v, m)
							if si == 0 {
								m = t
							} else {
								m = fl
							}
						}
						if old := in[s.Index][v]; old|m != old {
							in[s.Index][v] = old | m
							changed = true
						}
					}
					if changed {
						work = append(work, s)
					}
				}
			}
			res.in[f] = in
			// propagate to callees
			for _, b := range f.Blocks {
				if !reached[b.Index] {
					continue
				}
				for _, instr := range b.Instrs {
					ci, ok := instr.(ssa.CallInstruction)
					if !ok {
						continue
					}
					callee := ci.Common().StaticCallee()
					if callee == nil || callee.Blocks == nil {
						continue
					}
					hasCaller[callee] = true
					args := ci.Common().Args
					for i, a := range args {
						if i >= len(callee.Params) || !p.isFrameHeaderPtr(callee.Params[i].Type()) {
							continue
						}
						m := kAll
						if mm, ok := in[b.Index][a]; ok {
							m = mm
						}
						if newParam[callee] == nil {
							newParam[callee] = map[int]uint16{}
						}
						newParam[callee][i] |= m
					}
				}
			}
		}
		res.paramK = newParam
	}
	return res
}

// recvFromReader: v is a value received from the channel serverConn.reader.
func (p *Prog) recvFromReader(v ssa.Value) bool {
	switch x := v.(type) {
	case *ssa.Extract:
		if sel, ok := x.Tuple.(*ssa.Select); ok {
			for _, st := range sel.States {
				if st.Dir == types.RecvOnly && strings.Contains(p.vdescN(st.Chan, 3), "serverConn.reader") && p.isFrameHeaderPtr(x.Type()) {
					return true
				}
			}
		}
		if u, ok := x.Tuple.(*ssa.UnOp); ok && u.Op == token.ARROW {
			return strings.Contains(p.vdescN(u.X, 3), "serverConn.reader")
		}
	case *ssa.UnOp:
		if x.Op == token.ARROW {
			return strings.Contains(p.vdescN(x.X, 3), "serverConn.reader")
		}
	}
	return false
}

// zeroStreamKinds: the union of K over the sends on serverConn.reader that
// are not made under the fact fr.Stream() != 0.
func (p *Prog) zeroStreamKinds(k *ksaResult) uint16 {
	var m uint16
	found := false
	for _, f := range p.allFuncs() {
		for _, b := range f.Blocks {
			for _, in := range b.Instrs {
				var ch, val ssa.Value
				switch x := in.(type) {
				case *ssa.Send:
					ch, val = x.Chan, x.X
				case *ssa.Select:
					for _, st := range x.States {
						if st.Dir == types.SendOnly && strings.Contains(p.vdescN(st.Chan, 3), "serverConn.reader") {
							ch, val = st.Chan, st.Send
						}
					}
				}
				if ch == nil || !strings.Contains(p.vdescN(ch, 3), "serverConn.reader") {
					continue
				}
				found = true
				// the frame may be a parameter of a small forwarding helper: judge
				// at the helper's call sites
				type site struct {
					in  ssa.Instruction
					val ssa.Value
				}
				sites := []site{{in, val}}
				if pa, ok := val.(*ssa.Parameter); ok {
					sites = nil
					idx := -1
					for i, q := range f.Params {
						if q == pa {
							idx = i
						}
					}
					for _, cs := range p.callsTo(p.fname(f)) {
						if idx >= 0 && idx < len(cs.Common.Args) {
							sites = append(sites, site{cs.Instr, cs.Common.Args[idx]})
						}
					}
					if len(sites) == 0 {
						return kAll
					}
				}
				for _, st := range sites {
					nonzero := false
					for _, ft := range p.factsAt(st.in) {
						d := p.vdescN(ft.Cond, 4)
						if strings.HasPrefix(d, "((*FrameHeader).Stream(") && ((strings.HasSuffix(d, " != 0)") && ft.Val) || (strings.HasSuffix(d, " == 0)") && !ft.Val)) {
							nonzero = true
						}
					}
					if nonzero {
						continue
					}
					m |= k.kindAt(st.in, st.val)
				}
			}
		}
	}
	if !found {
		return kAll
	}
	return m
}

// kindAt returns K for frame value fr at instruction in.
func (k *ksaResult) kindAt(in ssa.Instruction, fr ssa.Value) uint16 {
	f := in.Parent()
	bs, ok := k.in[f]
	if !ok {
		return kAll
	}
	if m, ok := bs[in.Block().Index][fr]; ok {
		return m
	}
	return kAll
}

// nilFrameOnError verifies the summary "returns (nil, err) whenever err != nil"
// from the function's shape: a single return of (fr, err) preceded by
// `if err != nil { ...; fr = nil }`.
func (p *Prog) nilFrameOnError(f *ssa.Function) bool {
	if f == nil {
		return false
	}
	key := "nilOnErr:" + p.fname(f)
	if v, ok := p.memo[key]; ok {
		return v.(bool)
	}
	res := false
	if fd := p.decl(p.fname(f)); fd != nil && fd.Body != nil {
		n := len(fd.Body.List)
		if n >= 2 {
			rs, ok1 := fd.Body.List[n-1].(*ast.ReturnStmt)
			ifs, ok2 := fd.Body.List[n-2].(*ast.IfStmt)
			nret := 0
			ast.Inspect(fd.Body, func(x ast.Node) bool {
				if _, ok := x.(*ast.ReturnStmt); ok {
					nret++
				}
				return true
			})
			if ok1 && ok2 && nret == 1 && len(rs.Results) == 2 && p.text(ifs.Cond) == p.text(rs.Results[1])+" != nil" {
				for _, s := range ifs.Body.List {
					if as, ok := s.(*ast.AssignStmt); ok && len(as.Lhs) == 1 && p.text(as.Lhs[0]) == p.text(rs.Results[0]) && p.text(as.Rhs[0]) == "nil" {
						res = true
					}
				}
			}
		}
	}
	p.memo[key] = res
	return res
}
