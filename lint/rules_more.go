package main

import (
	"fmt"
	"go/ast"
	"go/token"
	"go/types"
	"strings"

	"golang.org/x/tools/go/ssa"
)

func init() {
	register(&Rule{
		Name: "close-stream-bookkeeping", Props: []string{"C08", "C13", "C09"}, Engine: "AST", Floor: 5,
		Doc: "closing a stream records its id in the closed-id memory, removes it from the table and closes a streamed body, unconditionally and before the handler-running test; a stream found closed after a frame is handed to closeStream; an error from handleFrame closes the stream",
		Run: ruleCloseStream,
	})
	register(&Rule{
		Name: "error-routing", Props: []string{"C09", "C10"}, Engine: "AST", Floor: 6,
		Doc: "writeError turns a connection-class error into GOAWAY and a stream-class error into RST_STREAM on that stream (GOAWAY when there is no stream); after a connection-class error from handleFrame the stream loop leaves; the read loop answers a connection-class read error with GOAWAY of that code and stops",
		Run: ruleErrorRouting,
	})
	register(&Rule{
		Name: "continuation-sequencing", Props: []string{"C08", "C10", "C01"}, Engine: "AST", Floor: 6,
		Doc: "the server read loop enforces RFC 7540 s6.10: while a header block is open only CONTINUATION on the same stream is accepted (anything else, including unknown frame types, is a connection error), END_HEADERS closes the block, a CONTINUATION with no open block is a connection error, and HEADERS without END_HEADERS opens one",
		Run: ruleContinuationSequencing,
	})
	register(&Rule{
		Name: "read-loop-connection-errors", Props: []string{"C10", "C18", "C08"}, Engine: "AST", Floor: 5,
		Doc: "frames that violate connection-level rules end the connection with GOAWAY(PROTOCOL_ERROR): an even stream id, PING or PUSH_PROMISE carrying a stream id, a connection WINDOW_UPDATE of 0, a stream-0 frame of a type that needs a stream; each such branch releases the frame and returns",
		Run: ruleReadLoopConnErrors,
	})
	register(&Rule{
		Name: "client-finish-order", Props: []string{"C12", "C19", "C18"}, Engine: "AST", Floor: 6,
		Doc: "the client drops a stream from its tables and marks the Ctx finished before resolving it; a timed-out request is resolved before it is cancelled; a Ctx goes back to the pool only when reusable() said so and after takeBack; an unsolicited PUSH_PROMISE ends the connection",
		Run: ruleClientFinishOrder,
	})
	register(&Rule{
		Name: "settings-copy-complete", Props: []string{"C18", "C03", "C04", "C05"}, Engine: "AST", Floor: 12,
		Doc: "Settings.CopyTo and HeaderField.CopyTo copy every field, whole: the received SETTINGS values (and presence markers) reach the connection's copy, and an HPACK dynamic-table entry is the field that was inserted (name, value, sensitivity)",
		Run: ruleSettingsCopy,
	})
}

func (p *Prog) closureLit(encl, name string) *ast.FuncLit {
	fd := p.decl(encl)
	if fd == nil {
		return nil
	}
	var lit *ast.FuncLit
	ast.Inspect(fd.Body, func(n ast.Node) bool {
		if as, ok := n.(*ast.AssignStmt); ok && len(as.Lhs) == 1 && len(as.Rhs) == 1 && p.text(as.Lhs[0]) == name {
			if fl, ok := as.Rhs[0].(*ast.FuncLit); ok && lit == nil {
				lit = fl
			}
		}
		return true
	})
	return lit
}

func ruleCloseStream(p *Prog, r *Out) {
	lit := p.closureLit("(*serverConn).handleStreams", "closeStream")
	if lit == nil {
		r.undecided("closeStream", "?", "closure no longer resolves")
		return
	}
	r.fn("(*serverConn).handleStreams")
	idx := map[string]int{}
	for i, s := range lit.Body.List {
		switch x := s.(type) {
		case *ast.ExprStmt:
			if c, ok := x.X.(*ast.CallExpr); ok {
				switch {
				case p.text(c.Fun) == "markClosed":
					idx["markClosed"] = i + 1
				case p.calleeOf(c) == "(*Streams).Del":
					idx["Del"] = i + 1
				case p.calleeOf(c) == "(*serverConn).closeBodyStream":
					idx["closeBody"] = i + 1
				case p.text(c.Fun) == "releaseStream":
					idx["release"] = i + 1
				}
			}
		case *ast.IfStmt:
			if p.isFieldSel(x.Cond, "Stream", "handlerRunning") {
				idx["guard"] = i + 1
			}
		}
	}
	pos := p.pos(lit.Pos())
	r.check(idx["markClosed"] > 0 && idx["markClosed"] < idx["guard"], "closed id remembered", pos, "markClosed before the handler test", "closeStream no longer records the id in the closed-stream memory on every path: a late frame on the stream is taken for a frame on a never-opened id (PROTOCOL_ERROR) or re-creates the stream")
	r.check(idx["Del"] > 0 && idx["Del"] < idx["guard"], "removed from the table", pos, "strms.Del before the handler test", "closeStream no longer removes the stream from the table on every path: a closed stream keeps receiving frames")
	r.check(idx["closeBody"] > 0 && idx["closeBody"] < idx["guard"], "streamed body closed", pos, "closeBodyStream before the handler test", "closeStream no longer closes a streamed response body on every path")
	r.check(idx["release"] > idx["guard"] && idx["guard"] > 0, "released after the handler test", pos, "releaseStream only past `if handlerRunning { abandoned; return }`", "closeStream releases the stream before testing whether its handler is still running")
	// stream loop: closed state leads to closeStream; handleFrame error closes
	fd := p.decl("(*serverConn).handleStreams")
	closedIf, errCloses := false, false
	ast.Inspect(fd.Body, func(n ast.Node) bool {
		ifs, ok := n.(*ast.IfStmt)
		if !ok {
			return true
		}
		t := p.text(ifs.Cond)
		if strings.Contains(t, "strm.State() == StreamStateClosed") {
			inspectCalls(ifs.Body, func(c *ast.CallExpr) {
				if p.text(c.Fun) == "closeStream" {
					closedIf = true
				}
			})
		}
		if ifs.Init != nil && strings.Contains(p.text(ifs.Init), "sc.handleFrame(") {
			we, ss := false, false
			for _, s := range ifs.Body.List {
				if es, ok := s.(*ast.ExprStmt); ok {
					if c, ok := es.X.(*ast.CallExpr); ok {
						if p.calleeOf(c) == "(*serverConn).writeError" {
							we = true
						}
						if p.calleeOf(c) == "(*Stream).SetState" && len(c.Args) == 1 && p.text(c.Args[0]) == "StreamStateClosed" {
							ss = true
						}
					}
				}
			}
			errCloses = we && ss
		}
		return true
	})
	r.check(closedIf, "closed streams leave the table", p.pos(fd.Pos()), "State()==Closed -> closeStream", "the stream loop no longer hands a stream that reached the closed state to closeStream")
	r.check(errCloses, "frame error closes the stream", p.pos(fd.Pos()), "writeError + SetState(Closed)", "an error from handleFrame is no longer answered (writeError) and followed by closing the stream")
}

func ruleErrorRouting(p *Prog, r *Out) {
	fd := p.decl("(*serverConn).writeError")
	if fd == nil {
		r.undecided("writeError", "?", "no longer resolves")
		return
	}
	r.fn("(*serverConn).writeError", "(*serverConn).handleStreams", "(*serverConn).readLoop")
	goawayCase, resetCase, resetNil := false, false, false
	ast.Inspect(fd.Body, func(n ast.Node) bool {
		cc, ok := n.(*ast.CaseClause)
		if !ok || len(cc.List) != 1 {
			return true
		}
		v, ok := p.intConst(cc.List[0])
		if !ok {
			return true
		}
		calls := map[string]int{}
		resets := 0
		inspectCalls(cc, func(c *ast.CallExpr) {
			calls[p.calleeOf(c)]++
			if _, _, _, ok := p.resetCall(c); ok {
				resets++
			}
		})
		switch v {
		case 7:
			goawayCase = calls["(*serverConn).writeGoAway"] >= 1 && resets == 0
		case 3:
			resetCase = resets == 1
			// nil stream -> goaway
			for _, s := range cc.Body {
				if ifs, ok := s.(*ast.IfStmt); ok && p.text(ifs.Cond) == "strm == nil" {
					inspectCalls(ifs.Body, func(c *ast.CallExpr) {
						if p.calleeOf(c) == "(*serverConn).writeGoAway" {
							resetNil = true
						}
					})
				}
			}
		}
		return true
	})
	pos := p.pos(fd.Pos())
	r.check(goawayCase, "connection error -> GOAWAY", pos, "case FrameGoAway: writeGoAway", "writeError no longer answers a connection-class error with GOAWAY only")
	r.check(resetCase, "stream error -> RST_STREAM", pos, "case FrameResetStream: writeReset(strm.ID(), code)", "writeError no longer answers a stream-class error with RST_STREAM")
	r.check(resetNil, "stream error without a stream -> GOAWAY", pos, "strm == nil -> writeGoAway", "writeError no longer escalates a stream-class error to GOAWAY when there is no stream to reset")
	// the switch discriminates on the error's frameType
	sw := false
	ast.Inspect(fd.Body, func(n ast.Node) bool {
		if s, ok := n.(*ast.SwitchStmt); ok && s.Tag != nil && strings.HasSuffix(p.text(s.Tag), ".frameType") {
			sw = true
		}
		return true
	})
	r.check(sw, "routing by error class", pos, "switch on Error.frameType", "writeError no longer routes on the error's class (frameType)")
	// stream loop leaves after a connection error
	hs := p.decl("(*serverConn).handleStreams")
	leaves := false
	if hs != nil {
		ast.Inspect(hs.Body, func(n ast.Node) bool {
			ifs, ok := n.(*ast.IfStmt)
			if !ok {
				return true
			}
			if p.isConjunctionOf(ifs.Cond, "errors.As(err,&connErr)", "connErr.frameType==FrameGoAway", "connErr.Code()!=NoError") {
				for _, s := range ifs.Body.List {
					if b, ok := s.(*ast.BranchStmt); ok && b.Tok == token.BREAK && b.Label != nil {
						leaves = true
					}
				}
			}
			return true
		})
	}
	r.check(leaves, "connection error ends the stream loop", pos, "errors.As && frameType == GoAway && Code != NoError -> break loop", "the stream loop no longer leaves exactly when handleFrame returned a connection-class error with a code other than NO_ERROR: either it keeps serving after a connection error, or a stream-level error (or the graceful NO_ERROR GOAWAY) now ends the whole connection")
	// read loop: GoAway-class read error
	rl := p.decl("(*serverConn).readLoop")
	rd := false
	if rl != nil {
		ast.Inspect(rl.Body, func(n ast.Node) bool {
			ifs, ok := n.(*ast.IfStmt)
			if !ok {
				return true
			}
			if p.isConjunctionOf(ifs.Cond, "errors.As(err,&h2err)", "h2err.frameType==FrameGoAway") {
				ga, ret := false, false
				for _, s := range ifs.Body.List {
					if es, ok := s.(*ast.ExprStmt); ok {
						if c, ok := es.X.(*ast.CallExpr); ok && p.calleeOf(c) == "(*serverConn).writeGoAway" && len(c.Args) == 3 && p.text(c.Args[1]) == "h2err.Code()" {
							ga = true
						}
					}
					if _, ok := s.(*ast.ReturnStmt); ok {
						ret = true
					}
				}
				rd = ga && ret
			}
			return true
		})
	}
	r.check(rd, "malformed frame -> GOAWAY(code) and stop", pos, "writeGoAway(0, h2err.Code(), ...) ; return", "the read loop no longer answers a connection-class frame error with GOAWAY carrying that error's code and stops")
}

func ruleContinuationSequencing(p *Prog, r *Out) {
	rl := p.decl("(*serverConn).readLoop")
	if rl == nil {
		r.undecided("readLoop", "?", "no longer resolves")
		return
	}
	r.fn("(*serverConn).readLoop")
	pos := p.pos(rl.Pos())
	rejectsWith := func(b *ast.BlockStmt) bool {
		ga, ret := false, false
		for _, s := range b.List {
			if es, ok := s.(*ast.ExprStmt); ok {
				if c, ok := es.X.(*ast.CallExpr); ok && p.calleeOf(c) == "(*serverConn).writeGoAway" && len(c.Args) == 3 {
					if v, ok := p.intConst(c.Args[1]); ok && v == 1 {
						ga = true
					}
				}
			}
			if rs, ok := s.(*ast.ReturnStmt); ok && len(rs.Results) == 1 && p.text(rs.Results[0]) == "errConnClosed" {
				ret = true
			}
		}
		return ga && ret
	}
	var open, wrongFrame, ends, stray, opens, unknown bool
	ast.Inspect(rl.Body, func(n ast.Node) bool {
		ifs, ok := n.(*ast.IfStmt)
		if !ok {
			return true
		}
		t := p.text(ifs.Cond)
		switch {
		case t == "expectContinuation != 0" && ifs.Else != nil:
			open = true
			for _, s := range ifs.Body.List {
				in, ok := s.(*ast.IfStmt)
				if !ok {
					continue
				}
				it := p.text(in.Cond)
				if strings.Contains(it, "fr.Type() != FrameContinuation") && strings.Contains(it, "fr.Stream() != expectContinuation") && strings.Contains(it, "||") && rejectsWith(in.Body) {
					wrongFrame = true
				}
				if strings.Contains(it, "Has(FlagEndHeaders)") {
					for _, b := range in.Body.List {
						if as, ok := b.(*ast.AssignStmt); ok && p.text(as.Lhs[0]) == "expectContinuation" && p.text(as.Rhs[0]) == "0" {
							ends = true
						}
					}
				}
			}
			// else-if chain
			if e1, ok := ifs.Else.(*ast.IfStmt); ok {
				if p.text(e1.Cond) == "fr.Type() == FrameContinuation" && rejectsWith(e1.Body) {
					stray = true
				}
				if e2, ok := e1.Else.(*ast.IfStmt); ok {
					et := p.text(e2.Cond)
					if strings.Contains(et, "fr.Type() == FrameHeaders") && strings.Contains(et, "!fr.Flags().Has(FlagEndHeaders)") {
						for _, b := range e2.Body.List {
							if as, ok := b.(*ast.AssignStmt); ok && p.text(as.Lhs[0]) == "expectContinuation" && p.text(as.Rhs[0]) == "fr.Stream()" {
								opens = true
							}
						}
					}
				}
			}
		case t == "expectContinuation != 0" && ifs.Else == nil:
			if rejectsWith(ifs.Body) {
				for _, g := range p.knownFacts(p.pmFor(rl), ifs) {
					if g.Val && strings.Contains(p.text(g.Cond), "ErrUnknownFrameType") {
						unknown = true
					}
				}
			}
		}
		return true
	})
	r.check(open, "block-open test present", pos, "if expectContinuation != 0 {...} else ...", "the read loop no longer distinguishes 'inside a header block' from 'outside'")
	r.check(wrongFrame, "only CONTINUATION on the same stream inside a block", pos, "type != CONTINUATION || stream != expected -> GOAWAY(PROTOCOL_ERROR)", "inside an open header block a frame of another type or on another stream is no longer a connection error (RFC 7540 s6.10): frames interleave with a header block and the HPACK state is corrupted")
	r.check(ends, "END_HEADERS closes the block", pos, "expectContinuation = 0", "END_HEADERS on a CONTINUATION no longer closes the header block: every later frame is rejected")
	r.check(stray, "CONTINUATION without an open block rejected", pos, "GOAWAY(PROTOCOL_ERROR)", "a CONTINUATION frame with no header block open is no longer a connection error (RFC 7540 s6.10)")
	r.check(opens, "HEADERS without END_HEADERS opens a block", pos, "expectContinuation = fr.Stream()", "a HEADERS frame without END_HEADERS no longer opens a header block: the frames that follow are not required to be its CONTINUATIONs")
	r.check(unknown, "unknown frame type inside a block rejected", pos, "GOAWAY(PROTOCOL_ERROR)", "an extension frame inside a header block is no longer a connection error (RFC 7540 s6.10)")
}

func ruleReadLoopConnErrors(p *Prog, r *Out) {
	ck := p.decl("(*serverConn).checkFrameWithStream")
	rl := p.decl("(*serverConn).readLoop")
	if ck == nil || rl == nil {
		r.undecided("anchors", "?", "checkFrameWithStream / readLoop no longer resolve")
		return
	}
	r.fn("(*serverConn).checkFrameWithStream", "(*serverConn).readLoop")
	even, ping, push, settings, goaway := false, false, false, false, false
	ast.Inspect(ck.Body, func(n ast.Node) bool {
		switch x := n.(type) {
		case *ast.IfStmt:
			if c, ok := p.canonCmp(x.Cond, nil); ok && c.Op == "eq" && strings.Contains(c.L.String(), "fr.Stream() & 1") && c.L.C == 0 {
				for _, s := range x.Body.List {
					if rs, ok := s.(*ast.ReturnStmt); ok {
						if cl, code, ok := p.errorCall(rs.Results[0]); ok && cl == "GoAway" && code == 1 {
							even = true
						}
					}
				}
			}
		case *ast.CaseClause:
			for _, e := range x.List {
				v, ok := p.intConst(e)
				if !ok {
					continue
				}
				for _, s := range x.Body {
					if rs, ok := s.(*ast.ReturnStmt); ok {
						if cl, code, ok := p.errorCall(rs.Results[0]); ok && cl == "GoAway" && code == 1 {
							if v == 6 {
								ping = true
							}
							if v == 5 {
								push = true
							}
							if v == 4 {
								settings = true
							}
							if v == 7 {
								goaway = true
							}
						}
					}
				}
			}
		}
		return true
	})
	pos := p.pos(ck.Pos())
	r.check(even, "even stream id rejected", pos, "stream&1 == 0 -> GOAWAY(PROTOCOL_ERROR)", "a client frame on an even (server-initiated) stream id is no longer a connection error (RFC 7540 s5.1.1)")
	r.check(ping, "PING with a stream id rejected", pos, "GOAWAY(PROTOCOL_ERROR)", "a PING frame carrying a stream id is no longer a connection error (RFC 7540 s6.7)")
	r.check(settings && goaway, "SETTINGS or GOAWAY with a stream id rejected", pos, "GOAWAY(PROTOCOL_ERROR)", "a SETTINGS or GOAWAY frame that names a stream is no longer a connection error (RFC 7540 s6.5, s6.8): taken for a stream frame it is ignored, answered with STREAM_CLOSED or refused, depending on the stream it names")
	r.check(push, "PUSH_PROMISE from a client rejected", pos, "GOAWAY(PROTOCOL_ERROR)", "a PUSH_PROMISE frame from a client is no longer a connection error (RFC 7540 s8.2)")
	// call site: error -> writeError(nil, cerr), release, return
	called := false
	ast.Inspect(rl.Body, func(n ast.Node) bool {
		ifs, ok := n.(*ast.IfStmt)
		if !ok || ifs.Init == nil || !strings.Contains(p.text(ifs.Init), "sc.checkFrameWithStream(fr)") {
			return true
		}
		we, ret := false, false
		for _, s := range ifs.Body.List {
			if es, ok := s.(*ast.ExprStmt); ok {
				if c, ok := es.X.(*ast.CallExpr); ok && p.calleeOf(c) == "(*serverConn).writeError" && p.text(c.Args[0]) == "nil" {
					we = true
				}
			}
			if _, ok := s.(*ast.ReturnStmt); ok {
				ret = true
			}
		}
		for _, g := range p.knownFacts(p.pmFor(rl), ifs) {
			if g.Val && p.text(g.Cond) == "fr.Stream() != 0" {
				called = we && ret
			}
		}
		return true
	})
	r.check(called, "stream-frame check applied and fatal", p.pos(rl.Pos()), "stream != 0: check -> writeError(nil, err); return", "the read loop no longer applies checkFrameWithStream to every frame with a stream id, or does not end the connection when it fails")
	// zero connection WINDOW_UPDATE and the default case
	zero, def := false, false
	ast.Inspect(rl.Body, func(n ast.Node) bool {
		cc, ok := n.(*ast.CaseClause)
		if !ok {
			return true
		}
		isWU := false
		for _, e := range cc.List {
			if v, ok := p.intConst(e); ok && v == 8 {
				isWU = true
			}
		}
		goaway := func(list []ast.Stmt) bool {
			ga, ret := false, false
			for _, s := range list {
				if es, ok := s.(*ast.ExprStmt); ok {
					if c, ok := es.X.(*ast.CallExpr); ok && p.calleeOf(c) == "(*serverConn).writeGoAway" {
						if v, ok := p.intConst(c.Args[1]); ok && v == 1 {
							ga = true
						}
					}
				}
				if _, ok := s.(*ast.ReturnStmt); ok {
					ret = true
				}
			}
			return ga && ret
		}
		if isWU {
			for _, s := range cc.Body {
				// on the connection's window only: on a stream's it is that stream's error, which the stream loop answers
				if ifs, ok := s.(*ast.IfStmt); ok && p.isConjunctionOf(ifs.Cond, "win==0", "fr.Stream()==0") && goaway(ifs.Body.List) {
					zero = true
				}
			}
		}
		if cc.List == nil && goaway(cc.Body) {
			// the default of the stream-0 switch
			def = true
		}
		return true
	})
	r.check(zero, "connection WINDOW_UPDATE of 0 rejected", p.pos(rl.Pos()), "win == 0 && fr.Stream() == 0 -> GOAWAY(PROTOCOL_ERROR)", "a connection-level WINDOW_UPDATE with increment 0 is no longer a connection error, or a stream-level one is one again (RFC 7540 s6.9: connection error on stream 0, stream error on a stream)")
	r.check(def, "stream-0 frame of a stream type rejected", p.pos(rl.Pos()), "default -> GOAWAY(PROTOCOL_ERROR)", "a DATA/HEADERS/... frame with stream id 0 is no longer a connection error")
}

func ruleClientFinishOrder(p *Prog, r *Out) {
	fd := p.decl("(*Conn).finish")
	if fd == nil {
		r.undecided("finish", "?", "(*Conn).finish no longer resolves")
		return
	}
	r.fn("(*Conn).finish", "(*Ctx).fireTimeout", "(*Client).roundTripOnce", "(*Conn).readLoop")
	idx := map[string]int{}
	for i, s := range fd.Body.List {
		inspectCalls(s, func(c *ast.CallExpr) {
			switch p.calleeOf(c) {
			case "(*Conn).takeReq":
				idx["take"] = i + 1
			case "(*Conn).deletePending":
				idx["del"] = i + 1
			case "(*Ctx).markFinished":
				idx["mark"] = i + 1
			case "(*Ctx).resolve":
				idx["resolve"] = i + 1
			}
		})
	}
	pos := p.pos(fd.Pos())
	r.check(idx["take"] > 0 && idx["take"] < idx["resolve"] && idx["del"] > 0 && idx["del"] < idx["resolve"], "tables dropped before resolve", pos, "takeReq, deletePending < resolve", "finish resolves the request before dropping the stream from the connection's tables: RoundTrip may hand the Ctx back to its pool while the connection still refers to it")
	r.check(idx["mark"] > 0 && idx["mark"] < idx["resolve"], "finished marked before resolve", pos, "markFinished < resolve", "finish resolves before marking the Ctx finished: reusable() can see an unfinished Ctx and leak it, or a finished mark lands on a recycled Ctx")
	if ft := p.decl("(*Ctx).fireTimeout"); ft != nil {
		ri, ci := -1, -1
		for i, s := range ft.Body.List {
			inspectCalls(s, func(c *ast.CallExpr) {
				if p.calleeOf(c) == "(*Ctx).resolve" && ri < 0 {
					ri = i
				}
				if p.calleeOf(c) == "(*Conn).cancel" {
					ci = i
				}
			})
		}
		r.check(ri >= 0 && ri < ci, "timeout resolves then cancels", p.pos(ft.Pos()), "resolve < cancel", "fireTimeout cancels the stream before (or without) resolving the request: the waiter is removed and the caller is never told")
	} else {
		r.undecided("fireTimeout", "?", "no longer resolves")
	}
	if rt := p.decl("(*Client).roundTripOnce"); rt != nil {
		pm := p.pmFor(rt)
		okRel, okOrder := false, false
		tb := -1
		for i, s := range rt.Body.List {
			inspectCalls(s, func(c *ast.CallExpr) {
				if p.calleeOf(c) == "(*Ctx).takeBack" {
					tb = i
				}
			})
		}
		inspectCalls(rt.Body, func(c *ast.CallExpr) {
			if p.calleeOf(c) != "releaseCtx" {
				return
			}
			for _, g := range p.knownFacts(pm, c) {
				if g.Val && p.text(g.Cond) == "reuse" {
					okRel = true
				}
			}
			if i := stmtIndexIn(rt.Body.List, c); i > tb && tb >= 0 {
				okOrder = true
			}
		})
		reuseDef := false
		ast.Inspect(rt.Body, func(n ast.Node) bool {
			if as, ok := n.(*ast.AssignStmt); ok && len(as.Lhs) == 1 && p.text(as.Lhs[0]) == "reuse" && p.text(as.Rhs[0]) == "ctx.reusable()" {
				reuseDef = true
			}
			return true
		})
		r.check(okRel && reuseDef, "Ctx recycled only when reusable", p.pos(rt.Pos()), "if ctx.reusable() { releaseCtx }", "a client Ctx is returned to the pool without reusable() having said the connection let go of it and the timer is not about to run: the next request gets a Ctx a loop or the timer can still resolve")
		r.check(okOrder, "Ctx recycled after takeBack", p.pos(rt.Pos()), "takeBack < releaseCtx", "a client Ctx is returned to the pool before takeBack stopped the connection from using it")
	} else {
		r.undecided("roundTripOnce", "?", "no longer resolves")
	}
	if rl := p.decl("(*Conn).readLoop"); rl != nil {
		push := false
		ast.Inspect(rl.Body, func(n ast.Node) bool {
			if ifs, ok := n.(*ast.IfStmt); ok && p.text(ifs.Cond) == "fr.Type() == FramePushPromise" {
				for _, s := range ifs.Body.List {
					if b, ok := s.(*ast.BranchStmt); ok && b.Tok == token.BREAK {
						push = true
					}
				}
			}
			return true
		})
		r.check(push, "unsolicited push ends the connection", p.pos(rl.Pos()), "PUSH_PROMISE -> stop", "a PUSH_PROMISE from the server no longer ends the connection although the client advertises ENABLE_PUSH=0 (RFC 7540 s6.6)")
	}
}

func ruleSettingsCopy(p *Prog, r *Out) {
	// Settings: the connection's record of the peer's SETTINGS; HeaderField: the
	// HPACK dynamic table's insert and lookup both go through CopyTo
	for _, tname := range []string{"Settings", "HeaderField"} {
		ruleCopyComplete(p, r, tname)
	}
	// the frame types' CopyTo are part of the exported codec (C05): a copy of a
	// frame has to serialise to the same octets
	for _, tname := range []string{"Headers", "Data", "Continuation", "Priority", "RstStream", "GoAway", "Ping", "WindowUpdate"} {
		if p.decl("(*"+tname+").CopyTo") != nil {
			ruleCopyComplete(p, r, tname)
		}
	}
}

func ruleCopyComplete(p *Prog, r *Out, tname string) {
	fd := p.decl("(*" + tname + ").CopyTo")
	tn, _ := p.Pkg.Scope().Lookup(tname).(*types.TypeName)
	if fd == nil || tn == nil {
		r.undecided(tname+".CopyTo", "?", "no longer resolves")
		return
	}
	r.fn("(*" + tname + ").CopyTo")
	dst := ""
	if len(fd.Type.Params.List) == 1 && len(fd.Type.Params.List[0].Names) == 1 {
		dst = fd.Type.Params.List[0].Names[0].Name
	}
	copied := map[string]string{}
	whole := map[string]bool{}
	for _, s := range fd.Body.List {
		as, ok := s.(*ast.AssignStmt)
		if !ok || len(as.Lhs) != 1 {
			continue
		}
		sel, ok := as.Lhs[0].(*ast.SelectorExpr)
		if !ok || p.text(sel.X) != dst {
			continue
		}
		if _, f, ok := p.fieldOf(sel); ok {
			// the source must be the same field of the receiver
			src := ""
			ast.Inspect(as.Rhs[0], func(n ast.Node) bool {
				if s2, ok := n.(*ast.SelectorExpr); ok {
					if _, f2, ok := p.fieldOf(s2); ok && p.text(s2.X) != dst {
						src = f2
					}
				}
				return true
			})
			copied[f] = src
			// a slice field is replaced, not extended: append(dst.f[:0], src.f...)
			whole[f] = true
			if c, ok := as.Rhs[0].(*ast.CallExpr); ok && p.calleeOf(c) == "builtin.append" {
				_, _, hi, okb := p.sliceBounds(c.Args[0])
				whole[f] = okb && hi == 0 && c.Ellipsis.IsValid()
			}
		}
	}
	st := tn.Type().Underlying().(*types.Struct)
	for i := 0; i < st.NumFields(); i++ {
		f := st.Field(i).Name()
		r.check(copied[f] == f && whole[f], tname+" copies "+f, p.pos(fd.Pos()), "dst."+f+" = src."+f, fmt.Sprintf("%s.CopyTo sets %s from %q (whole value: %v): the copy does not carry the source's %s", tname, f, copied[f], whole[f], f))
	}
}

func init() {
	register(&Rule{
		Name: "frame-step-order", Props: []string{"C08", "C01", "C10", "C13"}, Engine: "AST", Floor: 6,
		Doc: "within one iteration of the stream loop the steps run in the order the state machine needs: sample the closing flag, look the stream up, classify an unknown id, implicit close of idle streams, handleFrame, handleState, the dispatch/resume test, the closed-stream sweep, the graceful-close test; and a response's HEADERS frame is encoded and queued before any of its DATA",
		Run: ruleFrameStepOrder,
	})
}

func ruleFrameStepOrder(p *Prog, r *Out) {
	fd := p.decl("(*serverConn).handleStreams")
	if fd == nil {
		r.undecided("handleStreams", "?", "no longer resolves")
		return
	}
	r.fn("(*serverConn).handleStreams", "(*serverConn).finishRequest")
	// the reader clause
	var clause *ast.CommClause
	ast.Inspect(fd.Body, func(n ast.Node) bool {
		if cc, ok := n.(*ast.CommClause); ok && cc.Comm != nil && strings.Contains(p.text(cc.Comm), "<-sc.reader") {
			clause = cc
		}
		return true
	})
	if clause == nil {
		r.undecided("reader clause", p.pos(fd.Pos()), "no `case fr, ok := <-sc.reader` clause")
		return
	}
	pos := map[string]token.Pos{}
	for _, s := range clause.Body {
		t := p.text(s)
		// the table lookup, with or without the `id <= lastID` shortcut in front of it
		isLookup := false
		inspectCalls(s, func(c *ast.CallExpr) {
			if p.calleeOf(c) == "(*Streams).Search" {
				isLookup = true
			}
		})
		if _, seen := pos["lookup"]; isLookup && !seen {
			pos["lookup"] = s.Pos()
			continue
		}
		switch x := s.(type) {
		case *ast.AssignStmt:
			if strings.HasPrefix(t, "wasClosing := isClosing()") {
				pos["sample"] = s.Pos()
			}
			_ = x
		case *ast.IfStmt:
			ct := p.text(x.Cond)
			switch {
			case ct == "strm == nil":
				pos["classify"] = s.Pos()
			case ct == "fr.Type() == FrameHeaders":
				pos["implicit"] = s.Pos()
			case x.Init != nil && strings.Contains(p.text(x.Init), "sc.handleFrame("):
				pos["handleFrame"] = s.Pos()
			case strings.Contains(ct, "!strm.responded"):
				pos["dispatch"] = s.Pos()
			case strings.Contains(ct, "strm.State() == StreamStateClosed"):
				pos["sweep"] = s.Pos()
			case strings.Contains(ct, "canCloseAfterGoAway()"):
				pos["graceful"] = s.Pos()
			}
		case *ast.ExprStmt:
			if c, ok := x.X.(*ast.CallExpr); ok && p.calleeOf(c) == "handleState" {
				pos["handleState"] = s.Pos()
			}
		}
	}
	order := []string{"sample", "lookup", "classify", "implicit", "handleFrame", "handleState", "dispatch", "sweep", "graceful"}
	for i := 0; i+1 < len(order); i++ {
		a, b := order[i], order[i+1]
		pa, oka := pos[a]
		pb, okb := pos[b]
		r.check(oka && okb && pa < pb, "step "+a+" before "+b, p.pos(clause.Pos()), a+" < "+b,
			fmt.Sprintf("in the stream loop's frame clause the step `%s` no longer precedes `%s` (found: %v, %v): the per-frame state machine runs its steps in another order (e.g. a request dispatched before its frame was validated, or a stream swept before its state was updated)", a, b, oka, okb))
	}
	// once a frame went through handleFrame the iteration runs to the graceful-close test:
	// no `continue` of the stream loop between the two
	if hfPos, ok := pos["handleFrame"]; ok {
		skip := ""
		var walk func(n ast.Node, inner bool)
		walk = func(n ast.Node, inner bool) {
			ast.Inspect(n, func(m ast.Node) bool {
				switch x := m.(type) {
				case *ast.FuncLit:
					return false
				case *ast.ForStmt:
					if m != n {
						walk(x.Body, true)
						return false
					}
				case *ast.RangeStmt:
					if m != n {
						walk(x.Body, true)
						return false
					}
				case *ast.BranchStmt:
					if x.Tok == token.CONTINUE && x.Pos() > hfPos && (!inner || x.Label != nil) {
						skip = p.pos(x.Pos())
					}
				}
				return true
			})
		}
		for _, st := range clause.Body {
			walk(st, false)
		}
		r.check(skip == "", "a handled frame always reaches the graceful-close test", p.pos(clause.Pos()), "no continue after handleFrame", "after handleFrame the iteration can be abandoned with `continue` at "+skip+": the closed-stream sweep and the `closing && every promised stream finished` test are skipped on that path, so after a GOAWAY the connection is not closed when its last promised stream finishes there, and Serve never returns while the peer stays silent")
	}
	// response: HEADERS encoded and queued before DATA
	fr := p.decl("(*serverConn).finishRequest")
	if fr == nil {
		r.undecided("finishRequest", "?", "no longer resolves")
		return
	}
	enc, wr, sd := -1, -1, -1
	for i, s := range fr.Body.List {
		// the HEADERS encode and queue must be unconditional statements
		if es, ok := s.(*ast.ExprStmt); ok {
			if c, ok := es.X.(*ast.CallExpr); ok {
				switch p.calleeOf(c) {
				case "fasthttpResponseHeaders":
					enc = i
				case "(*serverConn).write", "(*serverConn).writeHeaderBlock":
					if wr < 0 {
						wr = i
					}
				}
			}
		}
		inspectCalls(s, func(c *ast.CallExpr) {
			if p.calleeOf(c) == "(*serverConn).sendData" {
				sd = i
			}
		})
	}
	r.check(enc >= 0 && enc < wr && wr < sd, "HEADERS before DATA", p.pos(fr.Pos()), "encode < queue HEADERS < sendData", "finishRequest no longer encodes and queues the response HEADERS frame before it starts sending DATA")
}

func init() {
	register(&Rule{
		Name: "stop-channels-closed", Props: []string{"C17", "C10", "C12", "C09"}, Engine: "SSA", Floor: 3,
		Doc: "every channel whose closing is what lets other goroutines give up is closed on every way out of the function that owns it: handlerStop when the stream loop ends (deferred, so that the return taken when the reader channel is closed is covered as well as break loop), writeStop right after the stream loop returns, done as the first effect of Conn.Close",
		Run: ruleStopChannelsClosed,
	})
	register(&Rule{
		Name: "validator-state-monotone", Props: []string{"C20", "C01", "C08", "C13"}, Engine: "AST", Floor: 5,
		Doc: "the per-stream request-validation flags (pseudo-header seen, regular field seen) are cleared only when the stream object is initialised: they accumulate over all header blocks of a stream, so that a pseudo-header in a trailer block, after regular fields of the first block, is still refused (RFC 7540 s8.1.2.1)",
		Run: ruleValidatorStateMonotone,
	})
}

func ruleStopChannelsClosed(p *Prog, r *Out) {
	type spec struct{ fn, owner, field, why string }
	for _, s := range []spec{
		{"(*serverConn).handleStreams", "serverConn", "handlerStop", "handlers that finish after the stream loop has gone park on handlerDone for ever once its buffer is full: a goroutine, a Stream and a RequestCtx leak per handler"},
		{"(*Conn).Close", "Conn", "done", "Write, writeOut and the write loop select on done; if Close can leave without closing it they block for ever"},
	} {
		f := p.ssaFunc(s.fn)
		if f == nil {
			r.undecided(s.fn, "?", "no longer resolves")
			continue
		}
		r.fn(s.fn)
		// Close does its work in shut (Close without the disconnect callback,
		// which the write loop runs last): judge shut, and require that Close
		// starts with it
		if s.fn == "(*Conn).Close" {
			if sf := p.ssaFunc("(*Conn).shut"); sf != nil {
				fd := p.decl("(*Conn).Close")
				first := fd != nil && len(fd.Body.List) > 0 && squash(p.text(fd.Body.List[0])) == "first,err:=c.shut()"
				r.check(first, "(*Conn).Close starts by shutting the connection", p.pos(f.Pos()), "first, err := c.shut()", "Close no longer starts with shut: it can run its callback, or return, with the connection still open")
				f = sf
			}
		}
		var closes []ssa.Instruction
		deferred := false
		for _, b := range f.Blocks {
			for _, in := range b.Instrs {
				ci, ok := in.(ssa.CallInstruction)
				if !ok || p.calleeName(ci.Common()) != "builtin.close" || len(ci.Common().Args) != 1 {
					continue
				}
				if _, o, n, ok := p.loadOfField(ci.Common().Args[0]); ok && o == s.owner && n == s.field {
					closes = append(closes, in)
					if _, isDefer := in.(*ssa.Defer); isDefer {
						deferred = true
					}
				}
			}
		}
		key := s.fn + " closes " + s.owner + "." + s.field + " on every exit"
		if len(closes) == 0 {
			r.bad(key, p.pos(f.Pos()), s.fn+" never closes "+s.field+": "+s.why)
			continue
		}
		// every return must be preceded by the close (a defer counts once it has been executed)
		missing := ""
		for _, b := range f.Blocks {
			if b == f.Recover {
				continue // go/ssa's synthetic block for a recovered panic
			}
			for _, in := range b.Instrs {
				ret, ok := in.(*ssa.Return)
				if !ok {
					continue
				}
				covered := false
				for _, c := range closes {
					if instrDominates(c, ret) {
						covered = true
					}
				}
				// returns taken before the guard that makes the close unnecessary (Close called twice)
				if !covered && s.fn == "(*Conn).Close" {
					for _, ft := range p.factsAt(ret) {
						if strings.Contains(p.vdescN(ft.Cond, 3), "atomic.CompareAndSwapUint64(") && !ft.Val {
							covered = true
						}
					}
					// ... or the return of a spilled result: the CAS failed on this path
					if !covered {
						for _, c := range closes {
							_ = c
						}
					}
				}
				if !covered {
					missing = p.ipos(ret)
				}
			}
		}
		_ = deferred
		r.check(missing == "", key, p.ipos(closes[0]), "close dominates every return", fmt.Sprintf("%s can return (at %s) without having closed %s: %s", s.fn, missing, s.field, s.why))
	}
	// writeStop: closed unconditionally after handleStreams() in the goroutine that runs it
	fd := p.decl("(*serverConn).Serve")
	if fd == nil {
		r.undecided("Serve", "?", "no longer resolves")
		return
	}
	okk := false
	ast.Inspect(fd.Body, func(n ast.Node) bool {
		g, ok := n.(*ast.GoStmt)
		if !ok {
			return true
		}
		fl, ok := g.Call.Fun.(*ast.FuncLit)
		if !ok {
			return true
		}
		hs, cl := -1, -1
		for i, s := range fl.Body.List {
			if es, ok := s.(*ast.ExprStmt); ok {
				if c, ok := es.X.(*ast.CallExpr); ok {
					if p.calleeOf(c) == "(*serverConn).handleStreams" {
						hs = i
					}
					if p.calleeOf(c) == "builtin.close" && len(c.Args) == 1 && p.isFieldSel(c.Args[0], "serverConn", "writeStop") {
						cl = i
					}
				}
			}
		}
		if hs >= 0 && cl > hs {
			okk = true
		}
		return true
	})
	r.check(okk, "writeStop closed after the stream loop", p.pos(fd.Pos()), "handleStreams(); ...; close(writeStop) unconditionally", "the goroutine that runs the stream loop no longer closes writeStop unconditionally after it: the write loop never drains and stops, and the read loop's forward blocks")
}

func ruleValidatorStateMonotone(p *Prog, r *Out) {
	fields := []string{"pseudoMethod", "pseudoScheme", "pseudoPath", "pseudoAuthority", "regularSeen"}
	n := 0
	for _, f := range p.Files {
		pm := p.parentMaps()[f]
		ast.Inspect(f, func(x ast.Node) bool {
			as, ok := x.(*ast.AssignStmt)
			if !ok || len(as.Lhs) != 1 || len(as.Rhs) != 1 {
				return true
			}
			for _, fld := range fields {
				if p.isFieldSel(as.Lhs[0], "Stream", fld) {
					n++
					fn := enclosingFunc(pm, as)
					val := p.text(as.Rhs[0])
					r.check(val == "true" || fn == "NewStream", fn+" stores "+fld+"="+val, p.pos(as.Pos()), "set to true, or cleared in NewStream only",
						fmt.Sprintf("%s stores Stream.%s = %s: the flag is part of the request's validation state for the whole stream; clearing it anywhere but at stream initialisation (e.g. at the start of each header block) lets a trailer block carry what the first block would have been refused for (a pseudo-header after regular fields, a second :authority)", fn, fld, val))
				}
			}
			return true
		})
	}
	if n < 5 {
		r.bad("validation flags are maintained", "?", fmt.Sprintf("only %d stores to the request-validation flags found", n))
	}
	// counters that span the whole request only grow outside stream initialisation
	for _, fld := range []string{"headerListSize", "recvBody"} {
		grows := 0
		for _, f := range p.Files {
			pm := p.parentMaps()[f]
			ast.Inspect(f, func(x ast.Node) bool {
				as, ok := x.(*ast.AssignStmt)
				if !ok || len(as.Lhs) != 1 || !p.isFieldSel(as.Lhs[0], "Stream", fld) {
					return true
				}
				fn := enclosingFunc(pm, as)
				if as.Tok == token.ADD_ASSIGN {
					grows++
					return true
				}
				r.check(fn == "NewStream", fn+" resets "+fld, p.pos(as.Pos()), "only += outside NewStream",
					fmt.Sprintf("%s stores Stream.%s with `%s`: the counter spans every header block (and DATA frame) of the request, so starting it again at a trailer block gives the peer a fresh MaxHeaderListSize / MaxRequestBodySize budget while the fields and octets are still merged into the one request the handler gets", fn, fld, p.text(as)))
				return true
			})
		}
		if grows == 0 {
			r.bad("request-wide counter "+fld+" is accumulated", "?", "no `+=` on Stream."+fld+" found")
		}
	}
}

func init() {
	register(&Rule{
		Name: "conn-lifecycle", Props: []string{"C17", "C10", "C12", "C13"}, Engine: "AST", Floor: 12,
		Doc: "connection set-up and teardown structure: every channel field the loops send on, receive from or close is created with make() before the goroutines start (a nil channel blocks for ever and close(nil) panics); teardown stops every timer; the graceful-close test waits exactly for request streams at or below the GOAWAY reference; an abandoned stream is released, not answered, when its handler reports back; the concurrency slot is returned under the condition it was taken",
		Run: ruleConnLifecycle,
	})
}

func ruleConnLifecycle(p *Prog, r *Out) {
	// ---- channels are made before use
	type owner struct {
		typ   string
		inits []string
	}
	for _, o := range []owner{{"serverConn", []string{"(*Server).ServeConn", "(*serverConn).Serve"}}, {"Conn", []string{"NewConn"}}} {
		tn, ok := p.Pkg.Scope().Lookup(o.typ).(*types.TypeName)
		if !ok {
			r.undecided(o.typ, "?", "type no longer resolves")
			continue
		}
		st := tn.Type().Underlying().(*types.Struct)
		made := map[string]bool{}
		for _, fn := range o.inits {
			fd := p.decl(fn)
			if fd == nil {
				continue
			}
			r.fn(fn)
			ast.Inspect(fd.Body, func(n ast.Node) bool {
				switch x := n.(type) {
				case *ast.AssignStmt:
					if len(x.Lhs) == 1 && len(x.Rhs) == 1 {
						if sel, ok := x.Lhs[0].(*ast.SelectorExpr); ok {
							if ow, f, ok := p.fieldOf(sel); ok && ow == o.typ {
								if c, ok := x.Rhs[0].(*ast.CallExpr); ok && p.calleeOf(c) == "builtin.make" {
									// must be unconditional in the init function
									if topLevelIn(fd.Body.List, x) {
										made[f] = true
									}
								}
							}
						}
					}
				case *ast.KeyValueExpr:
					if id, ok := x.Key.(*ast.Ident); ok {
						if c, ok := x.Value.(*ast.CallExpr); ok && p.calleeOf(c) == "builtin.make" {
							made[id.Name] = true
						}
					}
				}
				return true
			})
		}
		for i := 0; i < st.NumFields(); i++ {
			f := st.Field(i)
			if _, isChan := f.Type().Underlying().(*types.Chan); !isChan {
				continue
			}
			r.check(made[f.Name()], o.typ+"."+f.Name()+" is made at set-up", p.pos(f.Pos()), "make() unconditionally in "+strings.Join(o.inits, "/"),
				fmt.Sprintf("channel %s.%s is not created with make() unconditionally during set-up: it stays nil, every send or receive on it blocks for ever and close() of it panics (in a timer goroutine that takes the process down)", o.typ, f.Name()))
		}
	}
	// ---- teardown stops the timers
	if fd := p.decl("(*serverConn).close"); fd != nil {
		r.fn("(*serverConn).close")
		stopped := map[string]bool{}
		inspectCalls(fd.Body, func(c *ast.CallExpr) {
			if p.calleeOf(c) == "(*time.Timer).Stop" {
				if sel, ok := c.Fun.(*ast.SelectorExpr); ok {
					if _, f, ok := p.fieldOf(sel.X.(*ast.SelectorExpr)); ok {
						stopped[f] = true
					}
				}
			}
		})
		for _, t := range []string{"pingTimer", "maxIdleTimer", "maxRequestTimer"} {
			r.check(stopped[t], "teardown stops "+t, p.pos(fd.Pos()), t+".Stop()", "(*serverConn).close no longer stops "+t+": the timer keeps firing (and re-arming) for a connection that is gone")
		}
		// nil guards for the optional timers: every Stop on one sits under `sc.<timer> != nil`
		pm := p.pmFor(fd)
		inspectCalls(fd.Body, func(c *ast.CallExpr) {
			if p.calleeOf(c) != "(*time.Timer).Stop" {
				return
			}
			sel, ok := c.Fun.(*ast.SelectorExpr)
			if !ok {
				return
			}
			rs, ok := sel.X.(*ast.SelectorExpr)
			if !ok {
				return
			}
			_, f, ok := p.fieldOf(rs)
			if !ok || (f != "pingTimer" && f != "maxIdleTimer") {
				return
			}
			guarded := false
			for _, g := range p.knownFacts(pm, c) {
				if g.Val && squash(p.text(g.Cond)) == squash(p.text(rs))+"!=nil" {
					guarded = true
				}
			}
			r.check(guarded, "optional timer "+f+" nil-guarded", p.pos(c.Pos()), "!= nil", "the optional timer "+f+" is stopped without a nil test although it is only created when pings / the idle timeout are enabled: ServeConn panics on every connection close with the feature off")
		})
	} else {
		r.undecided("(*serverConn).close", "?", "no longer resolves")
	}
	if fd := p.decl("(*serverConn).Serve"); fd != nil {
		called := false
		for _, s := range fd.Body.List {
			if es, ok := s.(*ast.ExprStmt); ok {
				if c, ok := es.X.(*ast.CallExpr); ok && p.calleeOf(c) == "(*serverConn).close" {
					called = true
				}
			}
		}
		r.check(called, "Serve tears the timers down", p.pos(fd.Pos()), "sc.close() after the read loop", "Serve no longer calls sc.close() unconditionally after the read loop returns")
	}
	// ---- graceful close test
	if lit := p.closureLit("(*serverConn).handleStreams", "canCloseAfterGoAway"); lit != nil {
		zero, loopOK, tail := false, false, false
		for _, s := range lit.Body.List {
			switch x := s.(type) {
			case *ast.IfStmt:
				if squash(p.text(x.Cond)) == "ref==0" {
					for _, b := range x.Body.List {
						if rs, ok := b.(*ast.ReturnStmt); ok && p.text(rs.Results[0]) == "false" {
							zero = true
						}
					}
				}
			case *ast.RangeStmt:
				for _, b := range x.Body.List {
					if ifs, ok := b.(*ast.IfStmt); ok {
						t := squash(p.text(ifs.Cond))
						if t == "strm.origType==FrameHeaders&&strm.ID()<=ref" {
							for _, bb := range ifs.Body.List {
								if rs, ok := bb.(*ast.ReturnStmt); ok && p.text(rs.Results[0]) == "false" {
									loopOK = true
								}
							}
						}
					}
				}
			case *ast.ReturnStmt:
				if p.text(x.Results[0]) == "true" {
					tail = true
				}
			}
		}
		refLoaded := false
		for _, s := range lit.Body.List {
			if as, ok := s.(*ast.AssignStmt); ok && p.text(as.Lhs[0]) == "ref" && squash(p.text(as.Rhs[0])) == "atomic.LoadUint32(&sc.closeRef)" {
				refLoaded = true
			}
		}
		r.check(!zero && refLoaded && loopOK && tail, "graceful close waits for promised request streams only", p.pos(lit.Pos()), "ref = closeRef; any HEADERS-opened stream with id <= ref -> not yet; else yes (also when ref is 0: nothing was promised)",
			"canCloseAfterGoAway no longer means 'no request stream at or below the GOAWAY's reference is still in the table' (a reference of zero, a GOAWAY sent before any stream was accepted, must count as 'nothing promised', not as 'no GOAWAY'): the connection either closes while promised requests are unanswered or never closes after an error GOAWAY")
		// a GOAWAY sent from the frame clause and followed by `continue` runs the test on the spot
		if hs := p.decl("(*serverConn).handleStreams"); hs != nil {
			sites, good := 0, 0
			ast.Inspect(hs.Body, func(n ast.Node) bool {
				var list []ast.Stmt
				switch x := n.(type) {
				case *ast.BlockStmt:
					list = x.List
				case *ast.CaseClause:
					list = x.Body
				default:
					return true
				}
				for i, st := range list {
					es, ok := st.(*ast.ExprStmt)
					if !ok {
						continue
					}
					c, ok := es.X.(*ast.CallExpr)
					if !ok {
						continue
					}
					isGA := p.calleeOf(c) == "(*serverConn).writeGoAway" && len(c.Args) == 3 && squash(p.text(c.Args[0])) != "0"
					if p.calleeOf(c) == "(*serverConn).writeError" && strings.Contains(p.text(c), "NewGoAwayError") {
						isGA = true
					}
					if !isGA {
						continue
					}
					// what follows in this list: break loop, or the test
					okHere := false
					for _, t := range list[i+1:] {
						if b, ok := t.(*ast.BranchStmt); ok && b.Tok == token.BREAK && b.Label != nil {
							okHere = true
						}
						if ifs, ok := t.(*ast.IfStmt); ok && squash(p.text(ifs.Cond)) == "canCloseAfterGoAway()" {
							for _, bb := range ifs.Body.List {
								if b, ok := bb.(*ast.BranchStmt); ok && b.Tok == token.BREAK && b.Label != nil {
									okHere = true
								}
							}
						}
					}
					sites++
					if okHere {
						good++
					}
					r.check(okHere, "error GOAWAY site runs the close test ("+p.text(c.Args[len(c.Args)-1])+")", p.pos(c.Pos()), "writeGoAway(...); if canCloseAfterGoAway() { break loop }",
						"the stream loop sends a GOAWAY with an error and goes on to the next frame without testing whether anything is left to wait for: the end-of-iteration test is skipped by the continue, no further frame may ever arrive, and Serve sleeps until the peer hangs up")
				}
				return true
			})
			if sites < 3 {
				r.bad("error GOAWAY sites in the stream loop", p.pos(hs.Pos()), fmt.Sprintf("only %d GOAWAY sites with a stream reference found in the stream loop", sites))
			}
		}
	} else {
		r.undecided("canCloseAfterGoAway", "?", "closure no longer resolves")
	}
	// ---- abandoned streams
	if fd := p.decl("(*serverConn).handleStreams"); fd != nil {
		marks := false
		if lit := p.closureLit("(*serverConn).handleStreams", "closeStream"); lit != nil {
			for _, s := range lit.Body.List {
				if ifs, ok := s.(*ast.IfStmt); ok && p.isFieldSel(ifs.Cond, "Stream", "handlerRunning") {
					for _, b := range ifs.Body.List {
						if as, ok := b.(*ast.AssignStmt); ok && p.isFieldSel(as.Lhs[0], "Stream", "abandoned") && p.text(as.Rhs[0]) == "true" {
							marks = true
						}
					}
				}
			}
		}
		r.check(marks, "closing under a running handler marks the stream abandoned", p.pos(fd.Pos()), "abandoned = true", "closeStream no longer marks a stream whose handler is still running as abandoned: when the handler reports back, its response is sent on a stream that was reset or timed out, and the stream is closed a second time")
		rel := false
		ast.Inspect(fd.Body, func(n ast.Node) bool {
			cc, ok := n.(*ast.CommClause)
			if !ok || cc.Comm == nil || !strings.Contains(p.text(cc.Comm), "<-sc.handlerDone") {
				return true
			}
			for _, s := range cc.Body {
				if ifs, ok := s.(*ast.IfStmt); ok && p.isFieldSel(ifs.Cond, "Stream", "abandoned") {
					r1, cont := false, false
					for _, b := range ifs.Body.List {
						if es, ok := b.(*ast.ExprStmt); ok && strings.HasPrefix(p.text(es.X), "releaseStream(") {
							r1 = true
						}
						if br, ok := b.(*ast.BranchStmt); ok && br.Tok == token.CONTINUE {
							cont = true
						}
					}
					// and it precedes finishRequest
					for _, s2 := range cc.Body {
						if s2.Pos() > ifs.Pos() && strings.Contains(p.text(s2), "sc.finishRequest(") && r1 && cont {
							rel = true
						}
					}
				}
			}
			return true
		})
		r.check(rel, "abandoned stream released, not answered", p.pos(fd.Pos()), "if abandoned { releaseStream; continue } before finishRequest", "when a handler reports back for an abandoned stream the loop no longer releases it and moves on before finishRequest: a response is encoded (advancing the shared HPACK encoder) and sent for a stream the peer reset")
		// slot returned under the condition it was taken
		if lit := p.closureLit("(*serverConn).handleStreams", "releaseStream"); lit != nil {
			mirrored := false
			for _, s := range lit.Body.List {
				if ifs, ok := s.(*ast.IfStmt); ok && squash(p.text(ifs.Cond)) == "strm.origType==FrameHeaders" {
					for _, b := range ifs.Body.List {
						if d, ok := b.(*ast.IncDecStmt); ok && d.Tok == token.DEC && p.text(d.X) == "openStreams" {
							mirrored = true
						}
					}
				}
			}
			r.check(mirrored, "slot returned under the condition it was taken", p.pos(lit.Pos()), "origType == FrameHeaders -> openStreams--", "releaseStream no longer returns the concurrency slot exactly for streams that took one (opened by HEADERS): the count drifts, and the connection refuses every stream after enough requests or stops enforcing the limit")
		}
		// createStream records how the stream was opened
		if cd := p.decl("(*serverConn).createStream"); cd != nil {
			rec := false
			for _, s := range cd.Body.List {
				if as, ok := s.(*ast.AssignStmt); ok && p.isFieldSel(as.Lhs[0], "Stream", "origType") && p.text(as.Rhs[0]) == "frameType" {
					rec = true
				}
			}
			r.check(rec, "stream remembers the frame that opened it", p.pos(cd.Pos()), "origType = frameType", "createStream no longer records the frame type that created the stream: slot accounting and the graceful-close test depend on it")
		}
	}
}
