package main

// FDE: finite-domain expression equivalence. Small arithmetic kernels
// (RFC 7541 s5.1 integers, flag tests, octet classifications) are compared
// with their reference definition by constant-folding the source expression
// for every value of a small enumerated domain. Only single expressions are
// folded; no statement, loop or call of the analysed program is executed.

import (
	"go/ast"
	"go/token"
	"go/types"
)

type fdeEnv map[string]int64

// fold evaluates an integer/boolean expression under env (keys are the
// whitespace-free source text of identifiers, index expressions and len()
// calls). Booleans are 0/1. ok=false when the expression uses anything else.
func (p *Prog) fold(e ast.Expr, env fdeEnv) (int64, bool) {
	e = ast.Unparen(e)
	if v, ok := env[squash(p.text(e))]; ok {
		return v, true
	}
	switch x := e.(type) {
	case *ast.BasicLit, *ast.Ident:
		if id, ok := x.(*ast.Ident); ok {
			switch id.Name {
			case "true":
				return 1, true
			case "false":
				return 0, true
			}
		}
		if v, ok := p.intConst(e); ok {
			return v, true
		}
		return 0, false
	case *ast.SelectorExpr:
		if v, ok := p.intConst(e); ok {
			return v, true
		}
		return 0, false
	case *ast.UnaryExpr:
		v, ok := p.fold(x.X, env)
		if !ok {
			return 0, false
		}
		switch x.Op {
		case token.NOT:
			return 1 - v, true
		case token.SUB:
			return -v, true
		case token.ADD:
			return v, true
		case token.XOR:
			return ^v, true
		}
		return 0, false
	case *ast.CallExpr:
		// conversion to a basic integer type: truncate to its width
		if len(x.Args) == 1 {
			if tv, ok := p.infoFor(x).Types[x.Fun]; ok && tv.IsType() {
				v, ok := p.fold(x.Args[0], env)
				if !ok {
					return 0, false
				}
				if b, ok := tv.Type.Underlying().(*types.Basic); ok {
					switch b.Kind() {
					case types.Uint8:
						return v & 0xff, true
					case types.Uint16:
						return v & 0xffff, true
					case types.Uint32:
						return v & 0xffffffff, true
					case types.Int8:
						return int64(int8(v)), true
					case types.Int16:
						return int64(int16(v)), true
					case types.Int32:
						return int64(int32(v)), true
					case types.Int, types.Int64, types.Uint, types.Uint64, types.Uintptr:
						return v, true
					}
				}
				return 0, false
			}
		}
		return 0, false
	case *ast.BinaryExpr:
		a, ok1 := p.fold(x.X, env)
		if !ok1 {
			return 0, false
		}
		// short-circuit forms still need both sides to be foldable for a verdict
		b, ok2 := p.fold(x.Y, env)
		if !ok2 {
			return 0, false
		}
		bo := func(c bool) (int64, bool) {
			if c {
				return 1, true
			}
			return 0, true
		}
		switch x.Op {
		case token.ADD:
			return a + b, true
		case token.SUB:
			return a - b, true
		case token.MUL:
			return a * b, true
		case token.QUO:
			if b == 0 {
				return 0, false
			}
			return a / b, true
		case token.REM:
			if b == 0 {
				return 0, false
			}
			return a % b, true
		case token.AND:
			return a & b, true
		case token.OR:
			return a | b, true
		case token.XOR:
			return a ^ b, true
		case token.AND_NOT:
			return a &^ b, true
		case token.SHL:
			if b < 0 || b > 62 {
				return 0, false
			}
			return a << uint(b), true
		case token.SHR:
			if b < 0 || b > 63 {
				return 0, false
			}
			return a >> uint(b), true
		case token.EQL:
			return bo(a == b)
		case token.NEQ:
			return bo(a != b)
		case token.LSS:
			return bo(a < b)
		case token.LEQ:
			return bo(a <= b)
		case token.GTR:
			return bo(a > b)
		case token.GEQ:
			return bo(a >= b)
		case token.LAND:
			return bo(a != 0 && b != 0)
		case token.LOR:
			return bo(a != 0 || b != 0)
		}
	}
	return 0, false
}

// fdeDomain is the cartesian product of named value lists.
type fdeDomain struct {
	names []string
	vals  [][]int64
}

func (d fdeDomain) each(f func(env fdeEnv) bool) {
	idx := make([]int, len(d.names))
	for {
		env := fdeEnv{}
		for i, n := range d.names {
			env[n] = d.vals[i][idx[i]]
		}
		if !f(env) {
			return
		}
		k := len(idx) - 1
		for k >= 0 {
			idx[k]++
			if idx[k] < len(d.vals[k]) {
				break
			}
			idx[k] = 0
			k--
		}
		if k < 0 {
			return
		}
	}
}

func seq(lo, hi int64) []int64 {
	var out []int64
	for v := lo; v <= hi; v++ {
		out = append(out, v)
	}
	return out
}

// equivOver reports whether e folds to ref(env) for every point of the
// domain; on a mismatch it returns the first counterexample.
func (p *Prog) equivOver(e ast.Expr, d fdeDomain, derive func(fdeEnv), ref func(fdeEnv) int64) (ok bool, cex fdeEnv, got int64, folded bool) {
	ok, folded = true, true
	d.each(func(env fdeEnv) bool {
		if derive != nil {
			derive(env)
		}
		v, f := p.fold(e, env)
		if !f {
			ok, folded, cex = false, false, env
			return false
		}
		if v != ref(env) {
			ok, cex, got = false, env, v
			return false
		}
		return true
	})
	return
}
