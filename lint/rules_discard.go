package main

import (
	"fmt"
	"go/ast"
	"go/token"
	"strings"
)

// Rules for what the server does with a header block, or a frame, that belongs
// to a stream it has given up: the stream error has to stay the stream's
// (property C09), which means the block is still decoded to its end and frames
// the peer sent before it saw the RST_STREAM are ignored (RFC 7540 s5.1) except
// for their effect on the connection window and the dynamic table.

func init() {
	register(&Rule{
		Name: "block-remainder-decoded", Props: []string{"C09", "C01"}, Engine: "AST", Floor: 13,
		Doc: "a header block whose request is turned away is still decoded to its end: skipFields decodes every field of its input and leaves only on a decoding error (connection error) or with the bytes of a field cut by the frame boundary; rejectBlock runs the rest of the rejected fragment through it, counting the rejected field, and keeps the cut field and the field count on the stream; handleHeaderFrame records whether the block is still open; closeStream hands an open block's cut field and position to the connection; discardFrame continues from there (or from a fresh block on HEADERS), prepends the carried bytes, tells the decoder the position and keeps what is left",
		Run: ruleBlockRemainder,
	})
	register(&Rule{
		Name: "late-frames-on-reset-streams", Props: []string{"C09", "C08", "C14"}, Engine: "AST", Floor: 10,
		Doc: "every RST_STREAM on a stream in the table goes through resetStream, which records it on the stream before it sends; closeStream passes that record to the closed-stream memory, which keeps it (and never forgets a reset that was recorded); on a remembered stream the three trailing frame kinds are ignored, anything else is ignored through discardFrame when this side sent the reset and is GOAWAY(STREAM_CLOSED) otherwise; a refused HEADERS is remembered as reset by this side and its frame goes through discardFrame; RST_STREAM on an unknown id is a connection error only when the id is neither remembered nor at most the latest; discardFrame credits DATA to the connection window and decodes header fragments",
		Run: ruleLateFrames,
	})
}

func stmtTexts(p *Prog, list []ast.Stmt) []string {
	var out []string
	for _, s := range list {
		out = append(out, squash(p.text(s)))
	}
	return out
}

func hasStmt(p *Prog, list []ast.Stmt, want string) bool {
	for _, t := range stmtTexts(p, list) {
		if t == want {
			return true
		}
	}
	return false
}

// skipFieldsOK verifies the draining decode loop. Memoised: other rules rely
// on it (no-stream-error-inside-decode-loop accepts a return through
// rejectBlock only when this holds).
func (p *Prog) skipFieldsOK() (bool, []string) {
	if v, ok := p.memo["skipFieldsOK"]; ok {
		x := v.([]interface{})
		return x[0].(bool), x[1].([]string)
	}
	var why []string
	fail := func(s string) { why = append(why, s) }
	fd := p.decl("(*serverConn).skipFields")
	if fd == nil {
		fail("(*serverConn).skipFields no longer resolves")
	} else {
		var loop *ast.ForStmt
		for _, s := range fd.Body.List {
			if fs, ok := s.(*ast.ForStmt); ok {
				loop = fs
			}
		}
		if loop == nil || loop.Init != nil || loop.Post != nil || squash(p.text(loop.Cond)) != "len(b)>0" {
			fail("the loop is no longer `for len(b) > 0` over the input")
		} else {
			body := loop.Body.List
			// the decode step writes the cursor back
			step := false
			saved := ""
			var errIf, updIf *ast.IfStmt
			inc := false
			for i, s := range body {
				switch x := s.(type) {
				case *ast.AssignStmt:
					t := squash(p.text(x))
					if len(x.Rhs) == 1 && p.text(x.Rhs[0]) == "b" && len(x.Lhs) == 1 && x.Tok == token.DEFINE {
						saved = p.text(x.Lhs[0])
					}
					if t == "b,err=sc.dec.nextField(hf,fields==0,fields,b)" {
						step = true
					}
				case *ast.IfStmt:
					ct := squash(p.text(x.Cond))
					if ct == "err!=nil" {
						errIf = x
					} else if strings.Contains(ct, "hf.Empty()") || strings.HasSuffix(ct, ".fieldDecoded") {
						updIf = x
					}
				case *ast.IncDecStmt:
					if p.text(x.X) == "fields" && x.Tok == token.INC && i == len(body)-1 {
						inc = true
					}
				}
			}
			if !step {
				fail("the decode step is no longer `b, err = sc.dec.nextField(hf, fields == 0, fields, b)`: the cursor does not advance, or the decoder is not told where in the block it is")
			}
			if !inc {
				fail("the field count is no longer advanced once per decoded field at the end of the loop body")
			}
			if errIf == nil || saved == "" {
				fail("no error branch, or the cursor is not saved before the decode step")
			} else {
				// if Is(err, ErrUnexpectedSize) && !last { return saved, fields, nil }; return nil, fields, GoAway(COMPRESSION_ERROR)
				cut, conn := false, false
				for _, s := range errIf.Body.List {
					switch x := s.(type) {
					case *ast.IfStmt:
						if p.isConjunctionOf(x.Cond, "errors.Is(err,ErrUnexpectedSize)", "!last") {
							if res := firstReturn(x.Body); len(res) == 3 && p.text(res[0]) == saved && p.text(res[1]) == "fields" && p.text(res[2]) == "nil" {
								cut = true
							}
						}
					case *ast.ReturnStmt:
						if len(x.Results) == 3 {
							if cl, code, ok := p.errorCall(x.Results[2]); ok && cl == "GoAway" && code == 9 {
								conn = true
							}
						}
					}
				}
				if !cut {
					fail("a field cut by the end of the fragment is no longer handed back (saved cursor, field count, nil) exactly when more fragments are to come")
				}
				if !conn {
					fail("a decoding error is no longer a connection error (GOAWAY COMPRESSION_ERROR)")
				}
				if len(errIf.Body.List) != 2 || errIf.Else != nil {
					fail("the error branch has more than the cut-field test and the connection error")
				}
			}
			if updIf == nil || !isNoFieldTest(p, updIf.Cond) || len(updIf.Body.List) != 1 {
				fail("the loop no longer stops, without counting a field, exactly when the fragment ended in a dynamic table size update")
			} else if b, ok := updIf.Body.List[0].(*ast.BranchStmt); !ok || b.Tok != token.BREAK {
				fail("the size-update test no longer breaks the loop")
			}
			// no other way out of the loop
			exits := 0
			ast.Inspect(loop.Body, func(n ast.Node) bool {
				switch x := n.(type) {
				case *ast.FuncLit:
					return false
				case *ast.ReturnStmt:
					exits++
				case *ast.BranchStmt:
					if x.Tok != token.BREAK || x.Label != nil {
						exits += 10
					} else {
						exits++
					}
				}
				return true
			})
			if exits != 3 {
				fail(fmt.Sprintf("the loop has other ways out than the cut field, the decoding error and the trailing size update (%d)", exits))
			}
		}
		last := retResults(fd.Body.List[len(fd.Body.List)-1])
		if len(last) != 3 || p.text(last[0]) != "nil" || p.text(last[1]) != "fields" || p.text(last[2]) != "nil" {
			fail("the function no longer ends with (nil, fields, nil)")
		}
	}
	p.memo["skipFieldsOK"] = []interface{}{len(why) == 0, why}
	return len(why) == 0, why
}

// rejectBlockOK verifies that rejectBlock decodes the rest of the fragment it
// is given and hands back the reason it was given (or a connection error).
func (p *Prog) rejectBlockOK() (bool, []string) {
	if v, ok := p.memo["rejectBlockOK"]; ok {
		x := v.([]interface{})
		return x[0].(bool), x[1].([]string)
	}
	var why []string
	fail := func(s string) { why = append(why, s) }
	if ok, w := p.skipFieldsOK(); !ok {
		why = append(why, w...)
	}
	// rejectBlock is either the draining function itself, counting one field
	// beyond the stream's count, or a one-line wrapper that passes that count to
	// rejectBlockFrom, which takes the count from its caller
	bodyFn, countExpr := "(*serverConn).rejectBlock", ""
	if fd := p.decl("(*serverConn).rejectBlock"); fd == nil {
		fail("(*serverConn).rejectBlock no longer resolves")
	} else if len(fd.Body.List) == 1 {
		ok := false
		if res := retResults(fd.Body.List[0]); len(res) == 1 {
			if c, isC := res[0].(*ast.CallExpr); isC && p.calleeOf(c) == "(*serverConn).rejectBlockFrom" && len(c.Args) == 5 {
				names := []string{}
				for _, f := range fd.Type.Params.List {
					for _, n := range f.Names {
						names = append(names, n.Name)
					}
				}
				if len(names) == 4 && p.text(c.Args[0]) == names[0] && p.text(c.Args[1]) == names[1] && p.text(c.Args[2]) == names[2] && squash(p.text(c.Args[3])) == names[0]+".blockFields+1" && p.text(c.Args[4]) == names[3] {
					ok = true
				}
			}
		}
		if !ok {
			fail("rejectBlock no longer passes (stream, frame, rest of the fragment, the stream's field count plus one, reason) on to rejectBlockFrom")
		}
		bodyFn = "(*serverConn).rejectBlockFrom"
	}
	fd := p.decl(bodyFn)
	if fd == nil {
		fail(bodyFn + " no longer resolves")
	} else {
		names := []string{}
		for _, f := range fd.Type.Params.List {
			for _, n := range f.Names {
				names = append(names, n.Name)
			}
		}
		var strm, fr, b, reason string
		switch {
		case bodyFn == "(*serverConn).rejectBlock" && len(names) == 4:
			strm, fr, b, reason = names[0], names[1], names[2], names[3]
			countExpr = strm + ".blockFields+1"
		case bodyFn == "(*serverConn).rejectBlockFrom" && len(names) == 5:
			strm, fr, b, reason = names[0], names[1], names[2], names[4]
			countExpr = names[3]
		default:
			fail(bodyFn + " no longer takes (stream, frame, rest of the fragment, [fields decoded,] reason)")
		}
		if strm != "" {
			l := fd.Body.List
			want0 := squash(fmt.Sprintf("carry, fields, err := sc.skipFields(%s, %s, %s.Flags().Has(FlagEndHeaders))", b, countExpr, fr))
			if len(l) < 5 || squash(p.text(l[0])) != want0 {
				fail("rejectBlock no longer starts by decoding the rest of the fragment, one field further into the block than the stream's count, as the last fragment exactly when the frame carries END_HEADERS")
			}
			errRet := false
			if len(l) > 1 {
				if ifs, ok := l[1].(*ast.IfStmt); ok && squash(p.text(ifs.Cond)) == "err!=nil" {
					if res := firstReturn(ifs.Body); len(res) == 1 && p.text(res[0]) == "err" {
						errRet = true
					}
				}
			}
			if !errRet {
				fail("a decoding error in the rest of the fragment no longer replaces the stream error")
			}
			if !hasStmt(p, l, squash(fmt.Sprintf("%s.previousHeaderBytes = append(%s.previousHeaderBytes[:0], carry...)", strm, strm))) {
				fail("the cut field is no longer kept on the stream for the CONTINUATION")
			}
			if !hasStmt(p, l, squash(fmt.Sprintf("%s.blockFields = fields", strm))) {
				fail("the field count is no longer kept on the stream")
			}
			last := retResults(l[len(l)-1])
			if len(last) != 1 || p.text(last[0]) != reason {
				fail("rejectBlock no longer hands back the reason it was given")
			}
			// every other way out is a connection error: what the function can
			// return is its reason or a GOAWAY-class error, nothing else
			if f := p.ssaFunc(bodyFn); f != nil {
				sawReason := false
				for _, c := range p.returnErrClasses(f, 4) {
					switch {
					case c == "GoAway" || c == "Nil":
					case strings.HasPrefix(c, "Param#"):
						sawReason = true
					default:
						fail("rejectBlock can return an error of class " + c + ": only its reason or a connection error may leave it")
					}
				}
				if !sawReason {
					fail("rejectBlock never returns the reason it was given")
				}
			} else {
				fail("rejectBlock has no SSA body")
			}
		}
	}
	p.memo["rejectBlockOK"] = []interface{}{len(why) == 0, why}
	return len(why) == 0, why
}

func ruleBlockRemainder(p *Prog, r *Out) {
	r.fn("(*serverConn).skipFields", "(*serverConn).rejectBlock", "(*serverConn).discardFrame", "(*serverConn).handleHeaderFrame", "(*serverConn).handleStreams")
	pos := func(name string) string {
		if fd := p.decl(name); fd != nil {
			return p.pos(fd.Pos())
		}
		return "?"
	}
	ok, why := p.skipFieldsOK()
	r.check(ok, "skipFields decodes its whole input", pos("(*serverConn).skipFields"), "for len(b) > 0 { decode; cut field -> hand back; error -> GOAWAY; trailing size update -> stop; fields++ }", "the draining decode loop is no longer exact: "+strings.Join(why, "; "))
	ok2, why2 := p.rejectBlockOK()
	r.check(ok2, "rejectBlock drains the fragment and returns its reason", pos("(*serverConn).rejectBlock"), "skipFields(rest, blockFields+1, END_HEADERS); keep carry and count; return reason", "rejecting a request part way through a fragment no longer leaves the decoder where the peer's encoder is: "+strings.Join(why2, "; "))

	// every rejection inside the decode loop of handleHeaderFrame goes through rejectBlock with the loop's cursor
	if hd := p.decl("(*serverConn).handleHeaderFrame"); hd != nil {
		for _, dl := range p.decodeLoops() {
			if dl.fn != "(*serverConn).handleHeaderFrame" {
				continue
			}
			n, good := 0, 0
			inspectCalls(dl.loop.Body, func(c *ast.CallExpr) {
				if p.calleeOf(c) != "(*serverConn).rejectBlock" {
					return
				}
				n++
				if len(c.Args) == 4 && p.text(c.Args[0]) == "strm" && p.text(c.Args[1]) == "fr" && p.text(c.Args[2]) == dl.cursor {
					good++
				}
			})
			r.check(n >= 8 && n == good, "rejections hand rejectBlock the loop's cursor", p.pos(dl.loop.Pos()), fmt.Sprintf("%d sites: rejectBlock(strm, fr, %s, ...)", n, dl.cursor), fmt.Sprintf("%d of %d rejections inside the decode loop pass rejectBlock the stream, the frame and the undecoded rest of the fragment", good, n))
		}
		// blockOpen = !END_HEADERS, unconditionally, before the loop
		set := false
		for _, s := range hd.Body.List {
			if _, isFor := s.(*ast.ForStmt); isFor {
				break
			}
			if squash(p.text(s)) == "strm.blockOpen=!fr.Flags().Has(FlagEndHeaders)" {
				set = true
				// ... and before anything can turn the frame away: no return
				// stands in front of the store (it is a statement of the body
				// itself, so every path to a later return runs it)
				early := 0
				ast.Inspect(hd.Body, func(n ast.Node) bool {
					if _, lit := n.(*ast.FuncLit); lit {
						return false
					}
					if rs, ok := n.(*ast.ReturnStmt); ok && rs.Pos() < s.Pos() {
						early++
					}
					return true
				})
				r.check(early == 0, "the open-block mark is stored before any way out of handleHeaderFrame", p.pos(s.Pos()), "no return statement precedes strm.blockOpen = !END_HEADERS", fmt.Sprintf("%d return statement(s) of handleHeaderFrame stand in front of the store to strm.blockOpen: a HEADERS frame refused as a whole (a priority section naming its own stream, trailers without END_STREAM) whose block goes on in a CONTINUATION leaves the mark false, closeStream then hands nothing to sc.discard, and the CONTINUATION is decoded from the middle of a field: COMPRESSION_ERROR, or a dynamic table out of step for every later stream", early))
			}
		}
		r.check(set, "an open header block is recorded on the stream", p.pos(hd.Pos()), "strm.blockOpen = !END_HEADERS before the decode loop", "handleHeaderFrame no longer records, for every header frame and before anything can reject it, whether the block goes on in a CONTINUATION: a stream given up mid-block leaves the rest of the block undecoded")
		others := 0
		for _, f := range p.Files {
			ast.Inspect(f, func(n ast.Node) bool {
				if as, ok := n.(*ast.AssignStmt); ok && len(as.Lhs) == 1 && p.isFieldSel(as.Lhs[0], "Stream", "blockOpen") {
					t := squash(p.text(as))
					if t != "strm.blockOpen=!fr.Flags().Has(FlagEndHeaders)" && t != "strm.blockOpen=false" {
						others++
					}
				}
				return true
			})
		}
		r.check(others == 0, "nothing else writes the open-block mark", p.pos(hd.Pos()), "only the frame's END_HEADERS flag and the pool reset", fmt.Sprintf("%d other assignments to Stream.blockOpen", others))
	} else {
		r.undecided("handleHeaderFrame", "?", "no longer resolves")
	}

	// closeStream hands over
	hs := p.decl("(*serverConn).handleStreams")
	if hs == nil {
		r.undecided("handleStreams", "?", "no longer resolves")
		return
	}
	var cs *ast.FuncLit
	ast.Inspect(hs.Body, func(n ast.Node) bool {
		if as, ok := n.(*ast.AssignStmt); ok && len(as.Lhs) == 1 && p.text(as.Lhs[0]) == "closeStream" {
			if fl, ok := as.Rhs[0].(*ast.FuncLit); ok {
				cs = fl
			}
		}
		return true
	})
	if cs == nil {
		r.bad("closeStream hands an open block to the connection", p.pos(hs.Pos()), "closeStream no longer found")
	} else {
		var hand *ast.IfStmt
		for _, s := range cs.Body.List {
			if ifs, ok := s.(*ast.IfStmt); ok && squash(p.text(ifs.Cond)) == "strm.blockOpen" {
				hand = ifs
			}
		}
		okh := hand != nil && hand.Else == nil
		if okh {
			l := hand.Body.List
			okh = hasStmt(p, l, "sc.discard.open=true") &&
				(hasStmt(p, l, "sc.discard.id=strmID") || hasStmt(p, l, "sc.discard.id=strm.ID()")) &&
				hasStmt(p, l, "sc.discard.carry=append(sc.discard.carry[:0],strm.previousHeaderBytes...)") &&
				hasStmt(p, l, "sc.discard.fields=strm.blockFields")
			// before the stream can go back to the pool
			for _, s := range cs.Body.List {
				if s.Pos() < hand.Pos() {
					inspectCalls(s, func(c *ast.CallExpr) {
						if p.text(c.Fun) == "releaseStream" {
							okh = false
						}
					})
					if _, isRet := s.(*ast.ReturnStmt); isRet {
						okh = false
					}
				}
			}
		}
		cpos := p.pos(cs.Pos())
		r.check(okh, "closeStream hands an open block to the connection", cpos, "if strm.blockOpen { discard = {open, id, copy of the cut field, field count} } before the stream is released", "a stream closed in the middle of a header block no longer leaves the connection what it needs to decode the rest (the id, a copy of the bytes of the cut field, the position in the block), or only after the stream went back to the pool")
	}

	// discardFrame
	df := p.decl("(*serverConn).discardFrame")
	if df == nil {
		r.bad("discardFrame continues the block it was left", "?", "(*serverConn).discardFrame no longer resolves")
		return
	}
	var hdrCase, dataCase *ast.CaseClause
	ast.Inspect(df.Body, func(n ast.Node) bool {
		if cc, ok := n.(*ast.CaseClause); ok {
			ks := []string{}
			for _, e := range cc.List {
				ks = append(ks, p.text(e))
			}
			switch strings.Join(ks, ",") {
			case "FrameHeaders,FrameContinuation", "FrameContinuation,FrameHeaders":
				hdrCase = cc
			case "FrameData":
				dataCase = cc
			}
		}
		return true
	})
	dpos := p.pos(df.Pos())
	sw := false
	if len(df.Body.List) > 0 {
		if s, ok := df.Body.List[0].(*ast.SwitchStmt); ok && s.Tag != nil && squash(p.text(s.Tag)) == "fr.Type()" {
			sw = true
		}
	}
	if hdrCase == nil || !sw {
		r.bad("discardFrame continues the block it was left", dpos, "discardFrame no longer has a case for HEADERS and CONTINUATION under a switch on the frame type")
	} else {
		l := hdrCase.Body
		alias := hasStmt(p, l, "d:=&sc.discard")
		var fresh *ast.IfStmt
		for _, s := range l {
			if ifs, ok := s.(*ast.IfStmt); ok && strings.Contains(p.text(ifs.Cond), "FrameHeaders") {
				fresh = ifs
			}
		}
		freshOK := false
		if fresh != nil {
			atoms, pure := pureJunction(fresh.Cond, false)
			want := map[string]bool{"fr.Type()==FrameHeaders": true, "!d.open": true, "d.id!=fr.Stream()": true}
			freshOK = pure && len(atoms) == 3
			for _, a := range atoms {
				// a disjunction flattened by what holds when it is false
				t := squash(p.text(a.Cond))
				if a.Val {
					t = "!" + t
				}
				if !want[t] {
					freshOK = false
				}
				delete(want, t)
			}
			freshOK = freshOK && len(fresh.Body.List) == 1 && squash(p.text(fresh.Body.List[0])) == "d.carry,d.fields=d.carry[:0],0" && fresh.Else == nil
		}
		r.check(alias && freshOK, "discardFrame starts a fresh block exactly when it was not left one", dpos, "HEADERS, nothing open, or another stream -> carry = none, fields = 0", "discardFrame no longer forgets the carried bytes and the position exactly when the frame opens a block (HEADERS) or continues one it was not left: a stale cut field is decoded in front of a new block, or the real one is dropped")
		stepOK := hasStmt(p, l, "last:=fr.Flags().Has(FlagEndHeaders)") &&
			hasStmt(p, l, "b:=append(d.carry,fr.Body().(FrameWithHeaders).Headers()...)") &&
			hasStmt(p, l, "carry,fields,err:=sc.skipFields(b,d.fields,last)")
		errRet := false
		for _, s := range l {
			if ifs, ok := s.(*ast.IfStmt); ok && squash(p.text(ifs.Cond)) == "err!=nil" {
				if res := firstReturn(ifs.Body); len(res) == 1 && p.text(res[0]) == "err" {
					errRet = true
				}
			}
		}
		r.check(stepOK && errRet, "discardFrame decodes the carried bytes and the fragment at the block's position", dpos, "skipFields(append(carry, fragment...), fields, END_HEADERS); error -> returned", "discardFrame no longer decodes the carried bytes followed by the frame's fragment, at the recorded position, as the last fragment exactly under END_HEADERS, reporting a decoding error to its caller")
		keepOK := hasStmt(p, l, "d.id=fr.Stream()") && hasStmt(p, l, "d.carry=append(b[:0],carry...)") && hasStmt(p, l, "d.fields=fields") && hasStmt(p, l, "d.open=!last")
		r.check(keepOK, "discardFrame keeps what is left for the next fragment", dpos, "id, cut field, field count, open = !END_HEADERS", "discardFrame no longer records the stream, the bytes of a cut field, the position and whether the block goes on: the next CONTINUATION is decoded from the wrong place")
	}
	dataOK := false
	if dataCase != nil && len(dataCase.Body) == 1 {
		dataOK = squash(p.text(dataCase.Body[0])) == "sc.consumeConnRecvWindow(fr.Len())"
	}
	r.check(dataOK, "discardFrame credits DATA with its whole length", dpos, "case FrameData: consumeConnRecvWindow(fr.Len())", "DATA in flight for a stream that was reset or refused is no longer accounted against the connection window with its full length (padding included): the window leaks until the peer cannot send")
	// ends with return nil and has no other success exit
	last := retResults(df.Body.List[len(df.Body.List)-1])
	r.check(len(last) == 1 && p.text(last[0]) == "nil", "discardFrame reports success otherwise", dpos, "return nil", "discardFrame no longer ends with success")
	// the pool reset clears both marks
	if ns := p.decl("NewStream"); ns != nil {
		r.check(hasStmt(p, ns.Body.List, "strm.blockOpen=false") && hasStmt(p, ns.Body.List, "strm.resetSent=false"), "a recycled stream starts with neither mark", p.pos(ns.Pos()), "blockOpen = false; resetSent = false", "a stream taken from the pool keeps the open-block or reset-sent mark of its previous use")
	}
	// the discard state has no other writer
	writers := map[string]bool{}
	for _, f := range p.Files {
		pm := p.parentMaps()[f]
		ast.Inspect(f, func(n ast.Node) bool {
			as, ok := n.(*ast.AssignStmt)
			if !ok {
				return true
			}
			for _, lh := range as.Lhs {
				t := squash(p.text(lh))
				if strings.HasPrefix(t, "sc.discard.") || strings.HasPrefix(t, "d.carry") || t == "d.fields" || t == "d.open" || t == "d.id" {
					writers[enclosingFunc(pm, as)] = true
				}
			}
			return true
		})
	}
	extra := []string{}
	for w := range writers {
		if w != "(*serverConn).discardFrame" && w != "(*serverConn).handleStreams" {
			extra = append(extra, w)
		}
	}
	sortStrings(extra)
	r.check(len(extra) == 0 && len(writers) == 2, "the block remainder has two writers", dpos, "closeStream (hand-over) and discardFrame", fmt.Sprintf("the connection's block remainder is written in %v besides closeStream and discardFrame", extra))
}

func ruleLateFrames(p *Prog, r *Out) {
	r.fn("(*serverConn).handleStreams", "(*serverConn).resetStream", "(*serverConn).discardFrame")
	// resetStream
	if fd := p.decl("(*serverConn).resetStream"); fd != nil {
		l := fd.Body.List
		ok := len(l) == 2 && squash(p.text(l[0])) == "strm.resetSent=true" && squash(p.text(l[1])) == "sc.writeReset(strm.ID(),code)"
		r.check(ok, "resetStream records the reset, then sends it", p.pos(fd.Pos()), "strm.resetSent = true; writeReset(strm.ID(), code)", "resetStream no longer marks the stream as reset by this side and sends RST_STREAM with the given code on that stream")
	} else {
		r.bad("resetStream records the reset, then sends it", "?", "(*serverConn).resetStream no longer resolves")
	}
	// no RST_STREAM on a table stream bypasses it
	bypass := []string{}
	nReset := 0
	for _, f := range p.Files {
		pm := p.parentMaps()[f]
		inspectCalls(f, func(c *ast.CallExpr) {
			id, _, recorded, ok := p.resetCall(c)
			if !ok {
				return
			}
			fn := enclosingFunc(pm, c)
			if fn == "(*serverConn).resetStream" {
				return
			}
			if recorded {
				nReset++
				return
			}
			if strings.HasSuffix(id, ".ID()") {
				bypass = append(bypass, fn+" "+p.pos(c.Pos()))
			}
		})
	}
	r.check(len(bypass) == 0 && nReset >= 6, "every reset of a stream in the table is recorded", "serverConn.go", fmt.Sprintf("%d resetStream sites, no writeReset(x.ID(), ...)", nReset), fmt.Sprintf("RST_STREAM is sent on a stream of the table without recording it (%v; %d recorded sites): frames the peer had on the way are answered with GOAWAY(STREAM_CLOSED) and every other stream is lost", bypass, nReset))
	// resetSent has no other writer
	others := 0
	for _, f := range p.Files {
		ast.Inspect(f, func(n ast.Node) bool {
			if as, ok := n.(*ast.AssignStmt); ok && len(as.Lhs) == 1 && p.isFieldSel(as.Lhs[0], "Stream", "resetSent") {
				t := squash(p.text(as))
				if t != "strm.resetSent=true" && t != "strm.resetSent=false" {
					others++
				}
			}
			return true
		})
	}
	r.check(others == 0, "the reset mark is only set by resetStream and cleared by the pool", "stream.go", "two assignments", fmt.Sprintf("%d other assignments to Stream.resetSent", others))

	hs := p.decl("(*serverConn).handleStreams")
	if hs == nil {
		r.undecided("handleStreams", "?", "no longer resolves")
		return
	}
	pos := p.pos(hs.Pos())
	// markClosed keeps the mark
	var mc, cs *ast.FuncLit
	ast.Inspect(hs.Body, func(n ast.Node) bool {
		if as, ok := n.(*ast.AssignStmt); ok && len(as.Lhs) == 1 {
			if fl, ok := as.Rhs[0].(*ast.FuncLit); ok {
				switch p.text(as.Lhs[0]) {
				case "markClosed":
					mc = fl
				case "closeStream":
					cs = fl
				}
			}
		}
		return true
	})
	if mc != nil {
		params := []string{}
		for _, f := range mc.Type.Params.List {
			for _, n := range f.Names {
				params = append(params, n.Name)
			}
		}
		keep, upd := false, false
		if len(params) == 2 {
			id, rs := params[0], params[1]
			for _, s := range mc.Body.List {
				if squash(p.text(s)) == squash(fmt.Sprintf("closedStrms[%s] = %s", id, rs)) {
					keep = true
				}
				if ifs, ok := s.(*ast.IfStmt); ok && ifs.Init != nil && strings.Contains(p.text(ifs.Init), "closedStrms["+id+"]") {
					// already remembered: the mark may only be added
					for _, t := range ifs.Body.List {
						tt := squash(p.text(t))
						if tt == squash(fmt.Sprintf("closedStrms[%s] = closedStrms[%s] || %s", id, id, rs)) {
							upd = true
						}
					}
					if _, isRet := ifs.Body.List[len(ifs.Body.List)-1].(*ast.ReturnStmt); !isRet {
						upd = false
					}
				}
			}
		}
		r.check(keep && upd, "the closed-stream memory keeps who reset the stream", p.pos(mc.Pos()), "new id: closedStrms[id] = resetSent; known id: only ever added", "markClosed no longer stores, per remembered id, whether this side sent RST_STREAM (and keeps a recorded reset when the id is marked again)")
	} else {
		r.bad("the closed-stream memory keeps who reset the stream", pos, "markClosed no longer found")
	}
	// a stream the loop resets off the frame path (the request timer) is reset
	// before it is closed: closing is what hands the reset mark to the memory
	ast.Inspect(hs.Body, func(n ast.Node) bool {
		cc, ok := n.(*ast.CommClause)
		if !ok {
			return true
		}
		// the timer arm only: on the frame path the stream is closed at the bottom
		// of the iteration, after everything that can reset it
		if cc.Comm == nil || !strings.Contains(squash(p.text(cc.Comm)), "<-sc.maxRequestTimer.C") {
			return true
		}
		ast.Inspect(cc, func(m ast.Node) bool {
			blk, ok := m.(*ast.BlockStmt)
			if !ok {
				return true
			}
			rs, cl := -1, -1
			recv := ""
			for i, s := range blk.List {
				es, ok := s.(*ast.ExprStmt)
				if !ok {
					continue
				}
				c, ok := es.X.(*ast.CallExpr)
				if !ok {
					continue
				}
				if p.calleeOf(c) == "(*serverConn).resetStream" && len(c.Args) == 2 {
					rs, recv = i, p.text(c.Args[0])
				}
				if p.text(c.Fun) == "closeStream" && len(c.Args) == 1 && cl < 0 {
					if recv == "" || p.text(c.Args[0]) == recv {
						cl = i
					}
				}
			}
			if rs >= 0 && cl >= 0 {
				r.check(rs < cl, "a timed-out stream is reset before it is closed", p.pos(blk.Pos()), "resetStream(x, ...) ... closeStream(x)", "the request timer closes the stream before it resets it: the closed-stream memory is told the peer closed it, so the DATA or trailers the peer had on the way are answered with GOAWAY(STREAM_CLOSED) instead of being ignored")
			}
			return true
		})
		return false
	})
	if cs != nil {
		okc := false
		inspectCalls(cs, func(c *ast.CallExpr) {
			if p.text(c.Fun) == "markClosed" && len(c.Args) == 2 && squash(p.text(c.Args[1])) == "strm.resetSent" && (squash(p.text(c.Args[0])) == "strmID" || squash(p.text(c.Args[0])) == "strm.ID()") {
				okc = true
			}
		})
		r.check(okc, "closeStream passes the stream's reset mark on", p.pos(cs.Pos()), "markClosed(id, strm.resetSent)", "closeStream no longer tells the closed-stream memory whether this side reset the stream")
	}
	// the closed branch
	var closedIf, refuseIf, rstIf *ast.IfStmt
	ast.Inspect(hs.Body, func(n ast.Node) bool {
		ifs, ok := n.(*ast.IfStmt)
		if !ok {
			return true
		}
		ct := squash(p.text(ifs.Cond))
		if ifs.Init != nil && strings.Contains(squash(p.text(ifs.Init)), ":=closedStrms[fr.Stream()]") && ct == "ok" {
			closedIf = ifs
		}
		if strings.Contains(ct, "openStreams>=int(sc.st.maxStreams)") {
			refuseIf = ifs
		}
		if ct == "fr.Type()==FrameResetStream" && rstIf == nil {
			// the one on the unknown-stream path
			for _, g := range p.knownFacts(p.pmFor(hs), ifs) {
				if g.Val && squash(p.text(g.Cond)) == "strm==nil" {
					rstIf = ifs
				}
			}
		}
		return true
	})
	if closedIf == nil {
		r.bad("late frames on a remembered stream", pos, "the closed-stream lookup of the stream loop was not found")
	} else {
		mark := ""
		if as, ok := closedIf.Init.(*ast.AssignStmt); ok && len(as.Lhs) == 2 {
			mark = p.text(as.Lhs[0])
		}
		var sw *ast.SwitchStmt
		for _, s := range closedIf.Body.List {
			if x, ok := s.(*ast.SwitchStmt); ok {
				sw = x
			}
		}
		trailing, other := false, false
		if sw != nil && sw.Tag != nil && squash(p.text(sw.Tag)) == "fr.Type()" {
			for _, s := range sw.Body.List {
				cc := s.(*ast.CaseClause)
				if cc.List != nil {
					ks := map[string]bool{}
					for _, e := range cc.List {
						ks[p.text(e)] = true
					}
					trailing = len(ks) == 3 && ks["FramePriority"] && ks["FrameWindowUpdate"] && ks["FrameResetStream"] && len(cc.Body) == 0
					continue
				}
				// default: if mark { discardFrame ...; continue }; GOAWAY(STREAM_CLOSED)
				if len(cc.Body) >= 2 {
					first, ok := cc.Body[0].(*ast.IfStmt)
					if ok && mark != "" && mark != "_" && p.text(first.Cond) == mark && first.Else == nil {
						disc, cont := false, false
						if len(first.Body.List) == 2 {
							if ifs, ok := first.Body.List[0].(*ast.IfStmt); ok && ifs.Init != nil && squash(p.text(ifs.Init)) == "err:=sc.discardFrame(fr)" && squash(p.text(ifs.Cond)) == "err!=nil" {
								we, brk := false, false
								for _, t := range ifs.Body.List {
									if squash(p.text(t)) == "sc.writeError(nil,err)" {
										we = true
									}
									if b, ok := t.(*ast.BranchStmt); ok && b.Tok == token.BREAK && b.Label != nil {
										brk = true
									}
								}
								disc = we && brk
							}
							if b, ok := first.Body.List[1].(*ast.BranchStmt); ok && b.Tok == token.CONTINUE {
								cont = true
							}
						}
						ga := false
						for _, t := range cc.Body[1:] {
							if es, ok := t.(*ast.ExprStmt); ok {
								if c, ok := es.X.(*ast.CallExpr); ok && p.calleeOf(c) == "(*serverConn).writeGoAway" && len(c.Args) == 3 {
									if v, ok := p.intConst(c.Args[1]); ok && v == 5 && squash(p.text(c.Args[0])) == "fr.Stream()" {
										ga = true
									}
								}
							}
						}
						other = disc && cont && ga
					}
				}
			}
		}
		r.check(trailing, "PRIORITY, WINDOW_UPDATE and RST_STREAM on a remembered stream are ignored", p.pos(closedIf.Pos()), "empty case", "the three frame kinds that may trail any closed stream are no longer ignored there (RFC 7540 s5.1)")
		r.check(other, "anything else is ignored after our reset, and STREAM_CLOSED otherwise", p.pos(closedIf.Pos()), "if resetSent { discardFrame (error -> GOAWAY, leave) ; next frame }; GOAWAY(STREAM_CLOSED)", "a frame on a remembered stream is no longer taken in through discardFrame exactly when this side sent RST_STREAM on it (a decoding error ending the connection) and answered with GOAWAY(STREAM_CLOSED) when the peer closed it: a stream error takes the connection with it, or frames on a stream the peer ended are accepted")
	}
	if refuseIf == nil {
		r.bad("a refused HEADERS is remembered as reset by this side", pos, "the refusal branch of the stream loop was not found")
	} else {
		remember, disc := false, false
		for _, s := range refuseIf.Body.List {
			// unconditional when the branch itself is entered for HEADERS only
			if squash(p.text(s)) == "markClosed(fr.Stream(),true)" && (strings.Contains(squash(p.text(refuseIf.Cond)), "fr.Type()==FrameHeaders") || (strings.Contains(squash(p.text(refuseIf.Cond)), "&&newRequest") && p.newRequestDefined(hs, refuseIf))) {
				remember = true
			}
			if ifs, ok := s.(*ast.IfStmt); ok {
				if squash(p.text(ifs.Cond)) == "fr.Type()==FrameHeaders" && len(ifs.Body.List) == 1 && squash(p.text(ifs.Body.List[0])) == "markClosed(fr.Stream(),true)" {
					remember = true
				}
				if ifs.Init != nil && squash(p.text(ifs.Init)) == "err:=sc.discardFrame(fr)" && squash(p.text(ifs.Cond)) == "err!=nil" {
					we, brk := false, false
					for _, t := range ifs.Body.List {
						if squash(p.text(t)) == "sc.writeError(nil,err)" {
							we = true
						}
						if b, ok := t.(*ast.BranchStmt); ok && b.Tok == token.BREAK && b.Label != nil {
							brk = true
						}
					}
					disc = we && brk
				}
			}
		}
		r.check(remember, "a refused HEADERS is remembered as reset by this side", p.pos(refuseIf.Pos()), "if HEADERS { markClosed(id, true) }", "a stream refused with RST_STREAM(REFUSED_STREAM) is no longer remembered as closed by this side's reset: its DATA, CONTINUATION or RST_STREAM, already on the way, are taken for frames on an idle stream and kill the connection")
		r.check(disc, "the refused frame itself still counts", p.pos(refuseIf.Pos()), "discardFrame(fr); error -> GOAWAY, leave", "the frame that is refused no longer goes through discardFrame: its header block is not decoded (every later block decodes against a stale table) or its DATA is not credited")
	}
	if rstIf == nil {
		r.bad("RST_STREAM on an unknown id is an error only on an idle one", pos, "the RST_STREAM test of the unknown-stream path was not found")
	} else {
		okr := false
		for _, s := range rstIf.Body.List {
			if ifs, ok := s.(*ast.IfStmt); ok && ifs.Init != nil && squash(p.text(ifs.Init)) == "_,closed:=closedStrms[fr.Stream()]" {
				okr = p.isConjunctionOf(ifs.Cond, "!closed", "fr.Stream()>sc.lastID")
			}
		}
		r.check(okr, "RST_STREAM on an unknown id is an error only on an idle one", p.pos(rstIf.Pos()), "!remembered && id > lastID", "RST_STREAM on a stream that is not in the table is no longer a connection error exactly when the id is neither remembered as closed nor at most the latest accepted: the peer's cancel of a refused stream kills the connection, or RST_STREAM on a stream that never existed is let through")
	}
}
