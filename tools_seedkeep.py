#!/usr/bin/env python3
"""usage: tools_seedkeep.py <stage-dir> <id> <reported_by_rule> <detection_history> <verified_note>
copy a verified seeded change from its staging directory into /verif/seeded/<id>/ with a meta.json"""
import json, os, shutil, subprocess, sys
stage, sid, rule, hist, note = sys.argv[1:6]
dst = '/verif/seeded/' + sid
os.makedirs(dst, exist_ok=True)
shutil.copy(stage + '/patch.diff', dst + '/patch.diff')
if os.path.exists(stage + '/patch_original.diff'):
    shutil.copy(stage + '/patch_original.diff', dst + '/patch_original.diff')
shutil.copy(stage + '/zz_seed_test.go', dst + '/zz_seed_test.go.txt')
m = json.load(open(stage + '/meta_agent.json'))
head = subprocess.run(['git', '-C', '/repo', 'log', '--format=%h', '-1'], capture_output=True, text=True).stdout.strip()
m.update({
    'property': sid[:3], 'breaks_property': sid[:3],
    'author': 'independent sub-agent (second round) given only the property text and a scratch worktree',
    'demo_cmd': 'go test -vet=off -count=1 -timeout 120s -run TestSeeded%s .' % sid,
    'reported_by_rule': rule, 'detection_history': hist,
    'how_to_check': 'git -C /repo apply /verif/seeded/%s/patch.diff && (cd /verif && ./bin/h2lint -property %s -tier quick); git -C /repo checkout -- .' % (sid, sid[:3]),
    'demonstration': 'zz_seed_test.go.txt (rename to zz_seed_test.go in the repository root): passes on the unchanged tree, fails with patch.diff applied',
    'verified_here': note, 'patch_base_commit': head,
})
json.dump(m, open(dst + '/meta.json', 'w'), indent=1)
print('kept', dst)
